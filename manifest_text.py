"""Per-property texts of MANIFEST.json."""
_T = ('CBMC function contracts (goto-instrument --dfcc enforce/replace, loop contracts) on the mechanically lowered real functions; '
      'where the instrumentation does not scale: CBMC symbolic execution of the real function against contract stubs (complete when loop-free, '
      'otherwise labelled bounded and not counted)')
_NOTE = ('Trusted: clang AST, the AST-to-C lowering (differentially tested on every setup), the C model of the std:: surface, '
         'CBMC. Assumed: pow(256,i) exact for i<=3, little-endian LP64, no bad_alloc. Obligations of bounded units are reported '
         'separately and never counted as proved.')


def _p(text, ref, technique=_T, category='proof', note=_NOTE):
    return {'category': category, 'text': text, 'ref': ref, 'technique': technique, 'note': note}


LEVEL_TEXT = {
    'C01': _p('Round-trip lemmas over the codec contracts of the real reader/writer functions, for symbolic content.', 'DESIGN.md 4/C01'),
    'C02': _p('Reader functions proved against layout predicates written from the C3D specification, for every byte string.', 'DESIGN.md 4/C02'),
    'C03': _p('Writer functions proved against the specification-level layout (pointers, counts, padding) for every object state and every position modulo 512.', 'DESIGN.md 4/C03'),
    'C04': _p('Reader post-state predicate chained into writer preconditions; determinism from total writer postconditions.', 'DESIGN.md 4/C04'),
    'C05': _p('Representation invariant (header = parameters = data) as pre/postcondition of the mutators and of the derived header getters/setters, for every state.', 'DESIGN.md 4/C05'),
    'C06': _p('Ghost-index contracts on the append / replace / extend mutators: every container size, every index, every other element unchanged.', 'DESIGN.md 4/C06'),
    'C07': _p('Outcome contract (must-refuse / must-accept regions) of the frame and column adders, for every object state.', 'DESIGN.md 4/C07'),
    'C08': _p('Freshness / separation contracts on the functions that store frames.', 'DESIGN.md 4/C08'),
    'C09': _p('Contracts of the parameter/group mutators and of the shape predicate over mathematical products; replace-in-place / append of Group::parameter by loop contract (thorough) and by a bounded unit (quick, not counted).', 'DESIGN.md 4/C09'),
    'C10': _p('Exceptional postcondition "refused => unchanged" on every mutator under contract.', 'DESIGN.md 4/C10'),
    'C11': _p('Accessor contracts for every 64-bit index; first-match look-ups by loop contract.', 'DESIGN.md 4/C11'),
    'C12': _p('Full-domain proofs of the byte-assembly kernels and fixed-width codecs (every bit pattern, symbolically).', 'DESIGN.md 4/C12'),
    'C13': _p('CBMC memory-safety obligations (pointer, bounds, allocation kind, container index) in every unit, under the valid-state preconditions only.', 'DESIGN.md 4/C13'),
    'C14': _p('Frame conditions (assigns = stream only) and total byte-level postconditions of the writers.', 'DESIGN.md 4/C14'),
    'C15': _p('Contract of c3d::write over a stream model with nondeterministic open/write/close failure.', 'DESIGN.md 4/C15'),
    'C16': _p('Reader functions proved memory-safe, terminating and bounded in allocation for arbitrary byte images (no well-formedness precondition).', 'DESIGN.md 4/C16'),
    'C17': _p('Codec contracts stated at the format limits; over-limit clauses "refuses or round-trips".', 'DESIGN.md 4/C17'),
    'C18': _p('Source-level sufficient condition only: every function under contract assigns nothing outside the objects reachable from its arguments (DFCC frame checks) and the library has no mutable static storage (AST scan). Thread schedules are not explored.', 'DESIGN.md 4/C18', category='other'),
    'C19': _p('Source-level sufficient condition only: the anchored functions have no undefined or unspecified behaviour (CBMC arithmetic / conversion / shift checks) and a unique result (functional postconditions). Build configurations are not explored.', 'DESIGN.md 4/C19', category='other'),
}

NOT_APPLICABLE = {}

NOTES = ('All checks are run by /verif/vf.py against the working tree of /repo: clang AST dump -> lowering to C -> goto-cc -> '
         'goto-instrument contract instrumentation (or --replace-calls with contract stubs) -> cbmc. Exit 2 = undecided (never reported as a violation).')
