/* C model of the std:: surface used by ezc3d (see DESIGN.md 2.3).  Trusted base.
 *
 * Every function here stands for the libstdc++ entity named in its comment.  Bodies are
 * executable C (they are also compiled natively for the lowering self-test); proof units
 * either inline them (loop-free ones), unwind them, or replace them by the contracts in
 * contracts/model_contracts.h.
 */
#ifndef VF_STD_H
#define VF_STD_H
#include <stddef.h>
#include <stdint.h>
#include <stdlib.h>

#ifndef __CPROVER__VF
/* native build: CBMC primitives become plain C */
#include <assert.h>
#define __CPROVER_assert(c, msg) assert((c) && msg)
#define __CPROVER_assume(c) do { if (!(c)) abort(); } while (0)
#define VF_DUMMY_INIT = 0
/* spliced loop contracts are verifier-only text */
#define __CPROVER_loop_invariant(...)
#define __CPROVER_decreases(...)
#define __CPROVER_assigns(...)
#define VF_CHECK_WRITE_SRC(p, n) ((void)0)
#define VF_CHECK_READ_DST(p, n) ((void)0)
#define VF_CHECK_DELETE(p, k) ((void)0)
#else
#ifdef VF_TRACK_ALLOC
#define VF_CHECK_DELETE(p, k) __CPROVER_assert((p) == 0 || (const void *)(p) != vf_trk_ptr || vf_trk_kind == (k), "delete / delete[] matches the new / new[] that allocated the memory")
#else
#define VF_CHECK_DELETE(p, k) ((void)0)
#endif
#define VF_CHECK_WRITE_SRC(p, n) __CPROVER_assert((n) <= 0 || __CPROVER_r_ok((p), (size_t)(n)), "ostream::write source: n bytes readable inside one object")
#define VF_CHECK_READ_DST(p, n) __CPROVER_assert((n) <= 0 || __CPROVER_w_ok((p), (size_t)(n)), "istream::read destination: n bytes writable inside one object")
#define VF_DUMMY_INIT /* value returned while an exception propagates: never read, left nondeterministic */
#endif

#ifdef VF_TRACK_ALLOC
#define VF_GHOST_ALLOC_ , vf_trk_ptr, vf_trk_kind, vf_max_alloc
#else
#define VF_GHOST_ALLOC_
#endif
/* ghost character index used by spliced loop invariants (defined by every contract source) */
extern size_t vf_gc;
extern size_t vf_gn; /* ghost: C-string length witness (model loop contracts) */
extern size_t vf_gb, vf_gb2; /* ghost byte offsets used by spliced loop invariants of the writers */
extern size_t vf_gj;
/* ghost equality oracle of the name look-ups: vf_match[k] <=> element k carries the searched name */
extern _Bool vf_match[100000];

/* ---- exceptions: one ghost register holding the class of the exception in flight */
extern int vf_exc;
#define VF_EXC_none 0
#define VF_EXC_out_of_range 1
#define VF_EXC_invalid_argument 2
#define VF_EXC_runtime_error 3
#define VF_EXC_range_error 4
#define VF_EXC_ios_failure 5

/* std::ios_base constants (libstdc++ values) */
#define VF_IOS_beg 0
#define VF_IOS_cur 1
#define VF_IOS_end 2
#define VF_IOS_in 8
#define VF_IOS_out 16
#define VF_IOS_binary 4

typedef long vf_spos; /* std::streampos / std::streamoff */

/* ---- index check used by operator[] on vector and string (UB when violated) */
static inline size_t vf_chk_idx(size_t i, size_t n)
{
  __CPROVER_assert(i < n, "std::vector/std::string operator[] index within size");
  return i;
}

/* ---- std::string */
typedef struct vf_string {
  char *data;  /* size+1 bytes, data[size] == 0 */
  size_t size;
} vf_string;

#define VF_STR_IDX(s, i) ((s)->data[vf_chk_idx((i), (s)->size + 1)])

void vf_string_ctor(vf_string *s);                                       /* string() */
void vf_string_ctor_lit(vf_string *s, const char *lit, size_t n);        /* string("literal") */
void vf_string_ctor_cstr(vf_string *s, const char *c);                   /* string(const char*) : up to first NUL */
void vf_string_ctor_copy(vf_string *s, const vf_string *o);              /* string(const string&), string(string&&) */
void vf_string_assign(vf_string *s, const vf_string *o);                 /* operator=, assign */
void vf_string_append(vf_string *s, const vf_string *o);                 /* operator+= */
void vf_string_pop_back(vf_string *s);                                   /* pop_back */
int vf_string_compare(const vf_string *a, const vf_string *b);           /* compare(const string&) */
int vf_string_compare_lit(const vf_string *a, const char *lit, size_t n); /* compare(const char*) */
void vf_string_map_toupper(vf_string *s);
void vf_string_clear(vf_string *s);                                      /* clear */
size_t vf_string_find_last_not_of_char(const vf_string *s, char c);      /* find_last_not_of(char) : npos if none */
void vf_string_erase_from(vf_string *s, size_t pos);                     /* erase(pos) : out_of_range if pos > size */
#define VF_NPOS ((size_t)-1) /* std::transform(begin,end,begin,::toupper), "C" locale */

/* ---- std::stringstream (only operator<< of literals / unsigned long, and str()) */
typedef struct vf_sstream {
  vf_string s;
} vf_sstream;
void vf_sstream_ctor(vf_sstream *ss);
void vf_sstream_put_lit(vf_sstream *ss, const char *lit, size_t n);
void vf_sstream_put_ulong(vf_sstream *ss, size_t v);
void vf_sstream_str(vf_string *out, const vf_sstream *ss);

/* ---- std::fstream over an in-memory file.
 * One position for get and put (std::filebuf has a single file position).            */
typedef struct vf_stream {
  unsigned char *buf; /* file image                                                    */
  size_t len;         /* current file length (input: image length; output: high-water) */
  size_t cap;         /* bytes the device can hold (allocation size of buf)            */
  long pos;           /* file position                                                 */
  _Bool is_open;
  _Bool eof;          /* eofbit                                                        */
  _Bool fail;         /* failbit | badbit                                              */
  _Bool writable;
  size_t work;        /* ghost: total bytes requested through read()                   */
} vf_stream;

/* the "file system" a stream is opened on: set up by the harness */
extern unsigned char *vf_file_img;
extern size_t vf_file_len;
extern size_t vf_file_cap;
extern _Bool vf_file_openable;
extern _Bool vf_fault_enabled;
/* fault injection for writes/close: the harness leaves these unconstrained          */
_Bool nondet_vf_fault(void);

void vf_stream_ctor(vf_stream *f);                                     /* fstream() */
void vf_stream_ctor_open(vf_stream *f, const vf_string *path, int mode); /* fstream(path, mode) */
_Bool vf_stream_is_open(const vf_stream *f);
_Bool vf_stream_eof(const vf_stream *f);
_Bool vf_stream_fail(const vf_stream *f);                              /* ios::fail: failbit | badbit */
void vf_stream_read(vf_stream *f, char *dst, long n);                  /* istream::read */
void vf_stream_write(vf_stream *f, const char *src, long n);           /* ostream::write */
vf_spos vf_stream_tellg(vf_stream *f);                                 /* istream::tellg */
void vf_stream_seekg_pos(vf_stream *f, vf_spos p);                     /* istream::seekg(pos_type) */
void vf_stream_seekg_off(vf_stream *f, long off, int dir);             /* istream::seekg(off_type, seekdir) */
void vf_stream_close(vf_stream *f);                                    /* fstream::close */

/* ---- new / delete with allocation-kind tracking (ghost) */
void *vf_new_array(size_t n, size_t elem);  /* new T[n]   */
void *vf_new_object(size_t sz);             /* new T      */
void vf_delete_array(void *p);              /* delete[] p */
void vf_delete_object(void *p);             /* delete p   */
extern const void *vf_trk_ptr;  /* one nondeterministically chosen live allocation */
extern int vf_trk_kind;         /* 1 = new[], 2 = new */
extern size_t vf_max_alloc;
extern _Bool vf_io_error_seen;     /* ghost: largest single allocation request (bytes) */

/* ---- <cmath>/<cstdlib> */
double vf_pow(double b, double e); /* ASSUMED exact on (256, 0..3); unconstrained elsewhere */
int vf_abs(int x);

/* ---- std::vector<T>.  Growth always reallocates and releases the old storage, so that a
 * reference kept across a growing call is a detectable dangling pointer.                */
#define VF_EL_ZERO(p) (*(p) = 0)
#define VF_EL_ASSIGN(d, s) (*(d) = *(s))

void *vf_vec_alloc(size_t n, size_t elem);

#define VF_VEC_IDX(v, i) ((v)->data[vf_chk_idx((i), (v)->size)])

#define VF_VEC_DECLARE_S(TAG, T)                                                                                       \
  typedef struct vf_vec_##TAG {                                                                                        \
    T *data;                                                                                                           \
    size_t size;                                                                                                       \
  } vf_vec_##TAG;                                                                                                      \
  void vf_vec_##TAG##_ctor(vf_vec_##TAG *v);                                                                           \
  void vf_vec_##TAG##_ctor_copy(vf_vec_##TAG *v, const vf_vec_##TAG *o);                                               \
  void vf_vec_##TAG##_assign(vf_vec_##TAG *v, const vf_vec_##TAG *o);                                                  \
  void vf_vec_##TAG##_clear(vf_vec_##TAG *v);                                                                          \
  void vf_vec_##TAG##_resize(vf_vec_##TAG *v, size_t n);                                                               \
  void vf_vec_##TAG##_resize_fill(vf_vec_##TAG *v, size_t n, T x);                                                \
  void vf_vec_##TAG##_push_back(vf_vec_##TAG *v, T x);                                                                 \
  void vf_vec_##TAG##_insert_front(vf_vec_##TAG *v, T x);

#define VF_VEC_DECLARE_O(TAG, T)                                                                                       \
  typedef struct vf_vec_##TAG {                                                                                        \
    T *data;                                                                                                           \
    size_t size;                                                                                                       \
  } vf_vec_##TAG;                                                                                                      \
  void vf_vec_##TAG##_ctor(vf_vec_##TAG *v);                                                                           \
  void vf_vec_##TAG##_ctor_copy(vf_vec_##TAG *v, const vf_vec_##TAG *o);                                               \
  void vf_vec_##TAG##_assign(vf_vec_##TAG *v, const vf_vec_##TAG *o);                                                  \
  void vf_vec_##TAG##_clear(vf_vec_##TAG *v);                                                                          \
  void vf_vec_##TAG##_resize(vf_vec_##TAG *v, size_t n);                                                               \
  void vf_vec_##TAG##_resize_fill(vf_vec_##TAG *v, size_t n, const T *x);                                                \
  void vf_vec_##TAG##_push_back(vf_vec_##TAG *v, const T *x);                                                          \
  void vf_vec_##TAG##_insert_front(vf_vec_##TAG *v, const T *x);

/* scalar element type */
#define VF_VEC_DEFINE_S(TAG, T)                                                                                        \
  void vf_vec_##TAG##_ctor(vf_vec_##TAG *v)                                                                            \
  {                                                                                                                    \
    v->data = 0;                                                                                                       \
    v->size = 0;                                                                                                       \
  }                                                                                                                    \
  void vf_vec_##TAG##_ctor_copy(vf_vec_##TAG *v, const vf_vec_##TAG *o)                                                \
  {                                                                                                                    \
    size_t n = o->size;                                                                                                \
    T *nd = (T *)vf_vec_alloc(n, sizeof(T));                                                                           \
    for (size_t i = 0; i < n; ++i)                                                                                     \
      nd[i] = o->data[i];                                                                                              \
    v->data = nd;                                                                                                      \
    v->size = n;                                                                                                       \
  }                                                                                                                    \
  void vf_vec_##TAG##_assign(vf_vec_##TAG *v, const vf_vec_##TAG *o)                                                   \
  {                                                                                                                    \
    if (v == o)                                                                                                        \
      return;                                                                                                          \
    size_t n = o->size;                                                                                                \
    T *nd = (T *)vf_vec_alloc(n, sizeof(T));                                                                           \
    for (size_t i = 0; i < n; ++i)                                                                                     \
      nd[i] = o->data[i];                                                                                              \
    free(v->data);                                                                                                     \
    v->data = nd;                                                                                                      \
    v->size = n;                                                                                                       \
  }                                                                                                                    \
  void vf_vec_##TAG##_clear(vf_vec_##TAG *v)                                                                           \
  {                                                                                                                    \
    free(v->data);                                                                                                     \
    v->data = 0;                                                                                                       \
    v->size = 0;                                                                                                       \
  }                                                                                                                    \
  void vf_vec_##TAG##_resize(vf_vec_##TAG *v, size_t n)                                                                \
  {                                                                                                                    \
    if (n <= v->size) {                                                                                                \
      v->size = n;                                                                                                     \
      return;                                                                                                          \
    }                                                                                                                  \
    T *nd = (T *)vf_vec_alloc(n, sizeof(T));                                                                           \
    for (size_t i = 0; i < v->size; ++i)                                                                               \
      nd[i] = v->data[i];                                                                                              \
    for (size_t i = v->size; i < n; ++i)                                                                               \
      nd[i] = 0;                                                                                                       \
    free(v->data);                                                                                                     \
    v->data = nd;                                                                                                      \
    v->size = n;                                                                                                       \
  }                                                                                                                    \
  void vf_vec_##TAG##_resize_fill(vf_vec_##TAG *v, size_t n, T x)                                                      \
  {                                                                                                                    \
    if (n <= v->size) {                                                                                                \
      v->size = n;                                                                                                     \
      return;                                                                                                          \
    }                                                                                                                  \
    T *nd = (T *)vf_vec_alloc(n, sizeof(T));                                                                           \
    for (size_t i = 0; i < v->size; ++i)                                                                               \
      nd[i] = v->data[i];                                                                                              \
    for (size_t i = v->size; i < n; ++i)                                                                               \
      nd[i] = x;                                                                                                       \
    free(v->data);                                                                                                     \
    v->data = nd;                                                                                                      \
    v->size = n;                                                                                                       \
  }                                                                                                                    \
  void vf_vec_##TAG##_push_back(vf_vec_##TAG *v, T x)                                                                  \
  {                                                                                                                    \
    size_t n = v->size;                                                                                                \
    T *nd = (T *)vf_vec_alloc(n + 1, sizeof(T));                                                                       \
    nd[n] = x;                                                                                                         \
    for (size_t i = 0; i < n; ++i)                                                                                     \
      nd[i] = v->data[i];                                                                                              \
    free(v->data);                                                                                                     \
    v->data = nd;                                                                                                      \
    v->size = n + 1;                                                                                                   \
  }                                                                                                                    \
  void vf_vec_##TAG##_insert_front(vf_vec_##TAG *v, T x)                                                               \
  {                                                                                                                    \
    size_t n = v->size;                                                                                                \
    T *nd = (T *)vf_vec_alloc(n + 1, sizeof(T));                                                                       \
    nd[0] = x;                                                                                                         \
    for (size_t i = 0; i < n; ++i)                                                                                     \
      nd[i + 1] = v->data[i];                                                                                          \
    free(v->data);                                                                                                     \
    v->data = nd;                                                                                                      \
    v->size = n + 1;                                                                                                   \
  }

/* class element type: INIT(T*) default-constructs, COPY(T* dst, const T* src) copy-constructs,
 * RELOC(T* dst, T* src) is what libstdc++ does with an existing element when the storage grows
 * (move construction, or copy construction when the class has no move constructor).           */
#define VF_VEC_DEFINE_O(TAG, T, INIT, COPY, RELOC)                                                                     \
  void vf_vec_##TAG##_ctor(vf_vec_##TAG *v)                                                                            \
  {                                                                                                                    \
    v->data = 0;                                                                                                       \
    v->size = 0;                                                                                                       \
  }                                                                                                                    \
  void vf_vec_##TAG##_ctor_copy(vf_vec_##TAG *v, const vf_vec_##TAG *o)                                                \
  {                                                                                                                    \
    size_t n = o->size;                                                                                                \
    T *nd = (T *)vf_vec_alloc(n, sizeof(T));                                                                           \
    for (size_t i = 0; i < n; ++i)                                                                                     \
      COPY(&nd[i], &o->data[i]);                                                                                       \
    v->data = nd;                                                                                                      \
    v->size = n;                                                                                                       \
  }                                                                                                                    \
  void vf_vec_##TAG##_assign(vf_vec_##TAG *v, const vf_vec_##TAG *o)                                                   \
  {                                                                                                                    \
    if (v == o)                                                                                                        \
      return;                                                                                                          \
    size_t n = o->size;                                                                                                \
    T *nd = (T *)vf_vec_alloc(n, sizeof(T));                                                                           \
    for (size_t i = 0; i < n; ++i)                                                                                     \
      COPY(&nd[i], &o->data[i]);                                                                                       \
    free(v->data);                                                                                                     \
    v->data = nd;                                                                                                      \
    v->size = n;                                                                                                       \
  }                                                                                                                    \
  void vf_vec_##TAG##_clear(vf_vec_##TAG *v)                                                                           \
  {                                                                                                                    \
    free(v->data);                                                                                                     \
    v->data = 0;                                                                                                       \
    v->size = 0;                                                                                                       \
  }                                                                                                                    \
  void vf_vec_##TAG##_resize(vf_vec_##TAG *v, size_t n)                                                                \
  {                                                                                                                    \
    if (n <= v->size) {                                                                                                \
      v->size = n;                                                                                                     \
      return;                                                                                                          \
    }                                                                                                                  \
    T *nd = (T *)vf_vec_alloc(n, sizeof(T));                                                                           \
    for (size_t i = v->size; i < n; ++i)                                                                               \
      INIT(&nd[i]);                                                                                                    \
    for (size_t i = 0; i < v->size; ++i)                                                                               \
      RELOC(&nd[i], &v->data[i]);                                                                                      \
    free(v->data);                                                                                                     \
    v->data = nd;                                                                                                      \
    v->size = n;                                                                                                       \
  }                                                                                                                    \
  void vf_vec_##TAG##_resize_fill(vf_vec_##TAG *v, size_t n, const T *x)                                               \
  {                                                                                                                    \
    if (n <= v->size) {                                                                                                \
      v->size = n;                                                                                                     \
      return;                                                                                                          \
    }                                                                                                                  \
    T *nd = (T *)vf_vec_alloc(n, sizeof(T));                                                                           \
    for (size_t i = v->size; i < n; ++i)                                                                               \
      COPY(&nd[i], x);                                                                                                 \
    for (size_t i = 0; i < v->size; ++i)                                                                               \
      RELOC(&nd[i], &v->data[i]);                                                                                      \
    free(v->data);                                                                                                     \
    v->data = nd;                                                                                                      \
    v->size = n;                                                                                                       \
  }                                                                                                                    \
  void vf_vec_##TAG##_push_back(vf_vec_##TAG *v, const T *x)                                                           \
  {                                                                                                                    \
    size_t n = v->size;                                                                                                \
    T *nd = (T *)vf_vec_alloc(n + 1, sizeof(T));                                                                       \
    COPY(&nd[n], x);                                                                                                   \
    for (size_t i = 0; i < n; ++i)                                                                                     \
      RELOC(&nd[i], &v->data[i]);                                                                                      \
    free(v->data);                                                                                                     \
    v->data = nd;                                                                                                      \
    v->size = n + 1;                                                                                                   \
  }                                                                                                                    \
  void vf_vec_##TAG##_insert_front(vf_vec_##TAG *v, const T *x)                                                        \
  {                                                                                                                    \
    size_t n = v->size;                                                                                                \
    T *nd = (T *)vf_vec_alloc(n + 1, sizeof(T));                                                                       \
    COPY(&nd[0], x);                                                                                                   \
    for (size_t i = 0; i < n; ++i)                                                                                     \
      RELOC(&nd[i + 1], &v->data[i]);                                                                                  \
    free(v->data);                                                                                                     \
    v->data = nd;                                                                                                      \
    v->size = n + 1;                                                                                                   \
  }

#endif
