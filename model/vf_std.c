/* Bodies of the std:: model (see vf_std.h).  Trusted base. */
#include "vf_std.h"

int vf_exc = 0;

unsigned char *vf_file_img;
size_t vf_file_len;
size_t vf_file_cap;
_Bool vf_file_openable;
_Bool vf_fault_enabled; /* harness switch: when 0 no write/close fault is injected */

const void *vf_trk_ptr = 0;
int vf_trk_kind = 0;
size_t vf_max_alloc = 0;
_Bool vf_io_error_seen = 0; /* ghost (VF_TRACK_ALLOC builds): some stream operation failed */
#ifdef VF_TRACK_ALLOC
#define VF_IO_ERROR() (vf_io_error_seen = 1)
#else
#define VF_IO_ERROR() ((void)0)
#endif

#ifdef __CPROVER__VF
_Bool nondet_vf_bool(void);
double nondet_vf_double(void);
#else
#include <math.h>
static _Bool nondet_vf_bool(void) { return 0; }
_Bool nondet_vf_fault(void) { return 0; }
#endif

static void *vf_malloc(size_t n)
{
  void *p = malloc(n ? n : 1);
  __CPROVER_assume(p != 0); /* std::bad_alloc is outside the model */
  return p;
}

void *vf_vec_alloc(size_t n, size_t elem)
{
  if (n == 0)
    return 0;
  /* std::vector throws length_error beyond max_size(); the library never reaches it on valid use */
  __CPROVER_assume(n <= (SIZE_MAX / 2) / elem);
  return vf_malloc(n * elem);
}

/* ---------------- std::string */
void vf_string_ctor(vf_string *s)
{
  s->data = (char *)vf_malloc(1);
  s->data[0] = 0;
  s->size = 0;
}

void vf_string_ctor_lit(vf_string *s, const char *lit, size_t n)
{
  char *d = (char *)vf_malloc(n + 1);
  for (size_t i = 0; i < n; ++i)
    d[i] = lit[i];
  d[n] = 0;
  s->data = d;
  s->size = n;
}

void vf_string_ctor_cstr(vf_string *s, const char *c)
{
  size_t n = 0;
  while (c[n] != 0)
#ifdef VF_MODEL_LOOP_CONTRACTS
    __CPROVER_assigns(n)
    __CPROVER_loop_invariant(n <= vf_gn && (vf_gc < n ==> c[vf_gc] != 0))
    __CPROVER_decreases(vf_gn - n)
#endif
    ++n;
  char *d = (char *)vf_malloc(n + 1);
  for (size_t i = 0; i < n; ++i)
#ifdef VF_MODEL_LOOP_CONTRACTS
    __CPROVER_assigns(i, __CPROVER_object_whole(d))
    __CPROVER_loop_invariant(i <= n && (vf_gc < i ==> d[vf_gc] == c[vf_gc]))
    __CPROVER_decreases(n - i)
#endif
    d[i] = c[i];
  d[n] = 0;
  s->data = d;
  s->size = n;
}

void vf_string_ctor_copy(vf_string *s, const vf_string *o)
{
  size_t n = o->size;
  char *d = (char *)vf_malloc(n + 1);
  for (size_t i = 0; i < n; ++i)
#ifdef VF_MODEL_LOOP_CONTRACTS
    __CPROVER_assigns(i, __CPROVER_object_whole(d))
    __CPROVER_loop_invariant(i <= n && (vf_gc < i ==> d[vf_gc] == o->data[vf_gc]))
    __CPROVER_decreases(n - i)
#endif
    d[i] = o->data[i];
  d[n] = 0;
  s->data = d;
  s->size = n;
}

void vf_string_assign(vf_string *s, const vf_string *o)
{
  if (s == o)
    return;
  size_t n = o->size;
  char *d = (char *)vf_malloc(n + 1);
  for (size_t i = 0; i < n; ++i)
    d[i] = o->data[i];
  d[n] = 0;
  free(s->data);
  s->data = d;
  s->size = n;
}

void vf_string_append(vf_string *s, const vf_string *o)
{
  size_t n = s->size, m = o->size;
  __CPROVER_assume(m <= SIZE_MAX / 4 && n <= SIZE_MAX / 4);
  char *d = (char *)vf_malloc(n + m + 1);
  for (size_t i = 0; i < n; ++i)
    d[i] = s->data[i];
  for (size_t i = 0; i < m; ++i)
    d[n + i] = o->data[i];
  d[n + m] = 0;
  free(s->data);
  s->data = d;
  s->size = n + m;
}

void vf_string_pop_back(vf_string *s)
{
  __CPROVER_assert(s->size > 0, "std::string::pop_back on a non-empty string");
  s->size -= 1;
  s->data[s->size] = 0;
}

int vf_string_compare(const vf_string *a, const vf_string *b)
{
  size_t n = a->size < b->size ? a->size : b->size;
  for (size_t i = 0; i < n; ++i) {
    unsigned char x = (unsigned char)a->data[i], y = (unsigned char)b->data[i];
    if (x != y)
      return x < y ? -1 : 1;
  }
  if (a->size == b->size)
    return 0;
  return a->size < b->size ? -1 : 1;
}

int vf_string_compare_lit(const vf_string *a, const char *lit, size_t m)
{
  size_t n = a->size < m ? a->size : m;
  for (size_t i = 0; i < n; ++i) {
    unsigned char x = (unsigned char)a->data[i], y = (unsigned char)lit[i];
    if (x != y)
      return x < y ? -1 : 1;
  }
  if (a->size == m)
    return 0;
  return a->size < m ? -1 : 1;
}

void vf_string_map_toupper(vf_string *s)
{
  for (size_t i = 0; i < s->size; ++i) {
    char c = s->data[i];
    if (c >= 'a' && c <= 'z')
      s->data[i] = (char)(c - 'a' + 'A');
  }
}

void vf_string_clear(vf_string *s)
{
  s->size = 0;
  s->data[0] = 0;
}

size_t vf_string_find_last_not_of_char(const vf_string *s, char c)
{
  size_t i = s->size;
  while (i > 0) {
    if (s->data[i - 1] != c)
      return i - 1;
    --i;
  }
  return VF_NPOS;
}

void vf_string_erase_from(vf_string *s, size_t pos)
{
  if (pos > s->size) {
    vf_exc = VF_EXC_out_of_range;
    return;
  }
  s->size = pos;
  s->data[pos] = 0;
}

/* ---------------- std::stringstream */
void vf_sstream_ctor(vf_sstream *ss) { vf_string_ctor(&ss->s); }

void vf_sstream_put_lit(vf_sstream *ss, const char *lit, size_t n)
{
  vf_string t;
  vf_string_ctor_lit(&t, lit, n);
  vf_string_append(&ss->s, &t);
  free(t.data);
}

void vf_sstream_put_ulong(vf_sstream *ss, size_t v)
{
  char buf[21];
  int k = 20;
  buf[20] = 0;
  do {
    buf[--k] = (char)('0' + (int)(v % 10));
    v /= 10;
  } while (v != 0 && k > 0);
  vf_string t;
  vf_string_ctor_cstr(&t, &buf[k]);
  vf_string_append(&ss->s, &t);
  free(t.data);
}

void vf_sstream_str(vf_string *out, const vf_sstream *ss) { vf_string_ctor_copy(out, &ss->s); }

/* ---------------- std::fstream */
void vf_stream_ctor(vf_stream *f)
{
  f->buf = 0;
  f->len = 0;
  f->cap = 0;
  f->pos = 0;
  f->is_open = 0;
  f->eof = 0;
  f->fail = 0;
  f->writable = 0;
  f->work = 0;
}

void vf_stream_ctor_open(vf_stream *f, const vf_string *path, int mode)
{
  (void)path;
  vf_stream_ctor(f);
  f->writable = (mode & VF_IOS_out) != 0;
  if (!vf_file_openable) {
    f->fail = 1; /* basic_fstream(path,mode): open failure sets failbit */
    VF_IO_ERROR();
    return;
  }
  f->is_open = 1;
  f->buf = vf_file_img;
  f->cap = vf_file_cap;
  /* out without in/app truncates */
  f->len = (f->writable && !(mode & VF_IOS_in)) ? 0 : vf_file_len;
}

_Bool vf_stream_is_open(const vf_stream *f) { return f->is_open; }
_Bool vf_stream_eof(const vf_stream *f) { return f->eof; }
_Bool vf_stream_fail(const vf_stream *f) { return f->fail; }

void vf_stream_read(vf_stream *f, char *dst, long n)
{
  /* [istream.unformatted]: sentry fails unless good(); then failbit is set and nothing is read */
  if (f->eof || f->fail) {
    f->fail = 1;
    return;
  }
  if (n >= 0)
    f->work += (size_t)n;
  size_t avail = 0;
  if (f->is_open && f->pos >= 0 && (size_t)f->pos < f->len)
    avail = f->len - (size_t)f->pos;
  size_t k = 0;
  if (n > 0)
    k = (size_t)n < avail ? (size_t)n : avail;
  for (size_t i = 0; i < k; ++i)
#ifdef VF_MODEL_LOOP_CONTRACTS
    __CPROVER_assigns(i, __CPROVER_object_upto(dst, k))
    __CPROVER_loop_invariant(i <= k)
    __CPROVER_loop_invariant(vf_gc < i ==> (unsigned char)dst[vf_gc] == f->buf[(size_t)f->pos + vf_gc])
    __CPROVER_loop_invariant((0 < i ==> (unsigned char)dst[0] == f->buf[(size_t)f->pos]) && (1 < i ==> (unsigned char)dst[1] == f->buf[(size_t)f->pos + 1]) &&
                             (2 < i ==> (unsigned char)dst[2] == f->buf[(size_t)f->pos + 2]) && (3 < i ==> (unsigned char)dst[3] == f->buf[(size_t)f->pos + 3]))
    __CPROVER_decreases(k - i)
#endif
    dst[i] = (char)f->buf[(size_t)f->pos + i];
  f->pos += (long)k;
  if (n < 0 || k != (size_t)n) {
    f->eof = 1;
    f->fail = 1;
  }
}

void vf_stream_write(vf_stream *f, const char *src, long n)
{
  /* ostream::write: sentry fails unless good() (failbit set); a short xsputn sets badbit */
  if (f->eof || f->fail) {
    f->fail = 1;
    return;
  }
  if (n <= 0)
    return;
  if (!f->is_open || !f->writable || f->pos < 0) {
    f->fail = 1;
    VF_IO_ERROR();
    return;
  }
  size_t room = (size_t)f->pos < f->cap ? f->cap - (size_t)f->pos : 0;
  size_t k = (size_t)n;
  _Bool fault = vf_fault_enabled && nondet_vf_fault();
  if (k > room || fault) {
    /* device full / write error: an arbitrary prefix may have been stored */
    f->fail = 1;
    VF_IO_ERROR();
    return;
  }
  for (size_t i = 0; i < k; ++i)
#ifdef VF_MODEL_LOOP_CONTRACTS
    __CPROVER_assigns(i, __CPROVER_object_whole(f->buf))
    __CPROVER_loop_invariant(i <= k)
    __CPROVER_loop_invariant((vf_gb >= (size_t)f->pos && vf_gb < (size_t)f->pos + i) ==> f->buf[vf_gb] == (unsigned char)src[vf_gb - (size_t)f->pos])
    __CPROVER_loop_invariant((vf_gb < f->cap && !(vf_gb >= (size_t)f->pos && vf_gb < (size_t)f->pos + i)) ==> f->buf[vf_gb] == __CPROVER_loop_entry(f->buf[vf_gb]))
    __CPROVER_decreases(k - i)
#endif
    f->buf[(size_t)f->pos + i] = (unsigned char)src[i];
  f->pos += (long)k;
  if ((size_t)f->pos > f->len)
    f->len = (size_t)f->pos;
}

vf_spos vf_stream_tellg(vf_stream *f)
{
  /* C++11: tellg constructs a sentry; with eofbit or failbit set it sets failbit and returns -1 */
  if (f->eof || f->fail) {
    f->fail = 1;
    return -1;
  }
  if (!f->is_open)
    return -1;
  return f->pos;
}

void vf_stream_seekg_pos(vf_stream *f, vf_spos p)
{
  /* C++11: clears eofbit first, then sentry; seeks only if !fail() */
  f->eof = 0;
  if (f->fail)
    return;
  if (!f->is_open || p < 0) {
    f->fail = 1;
    return;
  }
  f->pos = p;
}

void vf_stream_seekg_off(vf_stream *f, long off, int dir)
{
  f->eof = 0;
  if (f->fail)
    return;
  if (!f->is_open) {
    f->fail = 1;
    return;
  }
  long base = dir == VF_IOS_beg ? 0 : dir == VF_IOS_cur ? f->pos : (long)f->len;
  /* lseek fails (EINVAL/EOVERFLOW) when the resulting offset is negative or not representable */
  if ((off > 0 && base > 0x7fffffffffffffffL - off) || (off < 0 && base + off < 0)) {
    f->fail = 1;
    return;
  }
  f->pos = base + off;
}

void vf_stream_close(vf_stream *f)
{
  if (!f->is_open) {
    f->fail = 1; /* fstream::close: rdbuf()->close() fails on a closed buffer -> failbit */
    return;
  }
  f->is_open = 0;
  if (f->writable && vf_fault_enabled && nondet_vf_fault()) {
    f->fail = 1; /* flushing the buffer failed */
    VF_IO_ERROR();
  }
}

/* ---------------- new / delete */
/* The allocation-kind / allocation-size ghost state is compiled in only for the units that reason about it
 * (-DVF_TRACK_ALLOC: c3d constructor/destructor, readers); elsewhere new/delete are plain malloc/free so that
 * the ghost globals do not have to appear in every assigns clause. */
void *vf_new_array(size_t n, size_t elem)
{
  size_t bytes = n * elem; /* callers pass elem == 1 for char arrays; n is at most 2^32 */
  void *p = vf_malloc(bytes);
#ifdef VF_TRACK_ALLOC
  if (bytes > vf_max_alloc)
    vf_max_alloc = bytes;
  if (nondet_vf_bool()) {
    vf_trk_ptr = p;
    vf_trk_kind = 1;
  }
#endif
  return p;
}

void *vf_new_object(size_t sz)
{
  void *p = vf_malloc(sz);
#ifdef VF_TRACK_ALLOC
  if (nondet_vf_bool()) {
    vf_trk_ptr = p;
    vf_trk_kind = 2;
  }
#endif
  return p;
}

void vf_delete_array(void *p)
{
  if (p == 0)
    return;
#ifdef VF_TRACK_ALLOC
  __CPROVER_assert(p != vf_trk_ptr || vf_trk_kind == 1, "delete[] releases memory obtained from new[]");
  if (p == vf_trk_ptr)
    vf_trk_ptr = 0;
#endif
  free(p);
}

void vf_delete_object(void *p)
{
  if (p == 0)
    return;
#ifdef VF_TRACK_ALLOC
  __CPROVER_assert(p != vf_trk_ptr || vf_trk_kind == 2, "delete releases memory obtained from new (not new[])");
  if (p == vf_trk_ptr)
    vf_trk_ptr = 0;
#endif
  free(p);
}

/* ---------------- math */
double vf_pow(double b, double e)
{
  /* ASSUMED: libm's pow is exact on these arguments (re-checked natively by the driver on every run) */
  if (b == 256.0) {
    if (e == 0.0)
      return 1.0;
    if (e == 1.0)
      return 256.0;
    if (e == 2.0)
      return 65536.0;
    if (e == 3.0)
      return 16777216.0;
  }
#ifdef __CPROVER__VF
  return nondet_vf_double();
#else
  return pow(b, e);
#endif
}

int vf_abs(int x) { return x < 0 ? -x : x; }
