#!/usr/bin/env python3
"""vf - driver of the contract-based verification of melund/ezc3d (see DESIGN.md).

  vf.py setup                         build-independent self tests (lowering differential test, mutation self-test)
  vf.py check <Cxx> [--tier quick|thorough]
  vf.py unit <unit> [--trace]         run one proof unit and list its obligations (development aid)
  vf.py list                          list units

Exit codes of `check`: 0 property held on every obligation, 1 violation (VIOLATION line printed),
2 undecided (extraction unsupported, timeout, out of memory, vacuity, tool error).
"""
import argparse
import concurrent.futures
import gzip
import hashlib
import json
import os
import re
import resource
import shutil
import subprocess
import sys
import tempfile
import time

ROOT = os.path.dirname(os.path.abspath(__file__))
REPO = os.environ.get('VF_REPO', '/repo')
sys.path.insert(0, ROOT)
sys.path.insert(0, os.path.join(ROOT, 'extract'))

CACHE = os.path.join(ROOT, 'build', 'cache')
MEM_LIMIT = 12 << 30

STD_CHECKS = ['--bounds-check', '--pointer-check', '--pointer-overflow-check', '--div-by-zero-check',
              '--signed-overflow-check', '--undefined-shift-check', '--conversion-check',
              '--pointer-primitive-check']
NO_DEFAULTS = ['--no-malloc-may-fail']


class Undecided(Exception):
    pass


def sh(cmd, timeout=None, cwd=None, mem=MEM_LIMIT):
    def lim():
        resource.setrlimit(resource.RLIMIT_AS, (mem, mem))
    t0 = time.time()
    try:
        p = subprocess.run(cmd, stdout=subprocess.PIPE, stderr=subprocess.PIPE, text=True, timeout=timeout, cwd=cwd,
                           preexec_fn=lim)
        return p.returncode, p.stdout, p.stderr, time.time() - t0
    except subprocess.TimeoutExpired as e:
        so = e.stdout or ''
        if isinstance(so, bytes):
            so = so.decode('utf-8', 'replace')
        return -9, so, 'TIMEOUT after %ss' % timeout, time.time() - t0


# --------------------------------------------------------------------------- build of the verified text

class Build:
    """Lowered library + model, regenerated from /repo's working tree on every run."""

    def __init__(self, repo=REPO, workdir=None):
        self.repo = repo
        self.dir = workdir or tempfile.mkdtemp(prefix='ezc3d-verif.', dir=os.environ.get('VERIF_SCRATCH', '/var/tmp'))
        self.own = workdir is None
        self.gen = os.path.join(self.dir, 'gen')
        self.t_lower = 0.0

    def cleanup(self):
        if self.own:
            shutil.rmtree(self.dir, ignore_errors=True)

    def lower(self):
        from lower import Emitter, ExtractionError
        t0 = time.time()
        loops = json.load(open(os.path.join(ROOT, 'contracts', 'loops.json')))
        loops = {k: v for k, v in loops.items() if not k.startswith('_')}
        try:
            em = Emitter(self.repo, loops)
            header, text = em.emit()
        except ExtractionError as e:
            raise Undecided(str(e))
        # The generated text and its compiled form live under a path that depends only on their content, so that
        # goto binaries (which embed source paths) are reproducible across runs and the result cache can hit.
        model_txt = open(os.path.join(ROOT, 'model', 'vf_std.c')).read() + open(os.path.join(ROOT, 'model', 'vf_std.h')).read()
        digest = hashlib.sha256((header + text + model_txt).encode()).hexdigest()[:20]
        store_root = os.path.join(os.environ.get('VERIF_SCRATCH', '/var/tmp'), 'ezc3d-verif-gen')
        os.makedirs(store_root, exist_ok=True)
        now = time.time()
        for d in os.listdir(store_root):      # drop generations older than a day
            pth = os.path.join(store_root, d)
            try:
                if now - os.path.getmtime(pth) > 86400:
                    shutil.rmtree(pth, ignore_errors=True)
            except OSError:
                pass
        store = os.path.join(store_root, digest)
        self.gen = os.path.join(store, 'gen')
        self.functions = em.functions
        # mutable static / namespace-scope variables of the library, as the extraction found them (C18)
        self.statics = [x for x in em.prog.statics if not x.startswith('const ')]
        self.t_lower = time.time() - t0
        inc = ['-I', os.path.join(ROOT, 'model'), '-I', self.gen, '-I', os.path.join(ROOT, 'contracts')]
        self.inc = inc
        self.bin = store
        NOLC = ['-D__CPROVER_loop_invariant(...)=', '-D__CPROVER_decreases(...)=', '-D__CPROVER_assigns(...)=']
        self.low_error = None
        if not os.path.exists(os.path.join(store, 'READY2')):
            if not os.path.isdir(store):
                tmp = tempfile.mkdtemp(prefix='gen.', dir=store_root)
                os.makedirs(os.path.join(tmp, 'gen'))
                open(os.path.join(tmp, 'gen', 'low.h'), 'w').write(header)
                open(os.path.join(tmp, 'gen', 'low.c'), 'w').write(text)
                try:
                    os.rename(tmp, store)
                except OSError:
                    shutil.rmtree(tmp, ignore_errors=True)   # another run created the same generation concurrently
            # low_nolc*.gb: the lowered code with the spliced loop contracts compiled away - what the bmc-mode units link
            # (they never apply loop contracts).  A change that renames a local named by a loop contract then leaves
            # only the units that need that contract undecided, not every unit.
            for src, out, defs, fatal in (
                    (os.path.join(self.gen, 'low.c'), 'low_nolc.gb', NOLC, True),
                    (os.path.join(self.gen, 'low.c'), 'low_nolc_trk.gb', NOLC + ['-DVF_TRACK_ALLOC'], True),
                    (os.path.join(self.gen, 'low.c'), 'low.gb', [], False),
                    (os.path.join(self.gen, 'low.c'), 'low_trk.gb', ['-DVF_TRACK_ALLOC'], False),
                    (os.path.join(ROOT, 'model', 'vf_std.c'), 'vf_std.gb', [], True),
                    (os.path.join(ROOT, 'model', 'vf_std.c'), 'vf_std_trk.gb', ['-DVF_TRACK_ALLOC'], True),
                    # the model with its own loop contracts (model self-verification units only)
                    (os.path.join(ROOT, 'model', 'vf_std.c'), 'vf_std_lc.gb', ['-DVF_MODEL_LOOP_CONTRACTS'], True)):
                if os.path.exists(os.path.join(store, out)):
                    continue
                tmpo = os.path.join(store, out + '.%d.tmp' % os.getpid())
                rc, so, se, _ = sh(['goto-cc', '-D__CPROVER__VF'] + defs + inc + ['-c', src, '-o', tmpo])
                if rc != 0:
                    if fatal:
                        raise Undecided('goto-cc failed on %s:\n%s' % (src, (so + se)[-3000:]))
                    open(os.path.join(store, 'LOW_ERROR'), 'w').write((so + se)[-3000:])
                    continue
                os.replace(tmpo, os.path.join(store, out))
            open(os.path.join(store, 'READY2'), 'w').write('ok')
        if os.path.exists(os.path.join(store, 'LOW_ERROR')):
            # the lowered code does not compile with its loop contracts in place (a contract names something the code no
            # longer has): units that link it are undecided, bmc-mode units go on
            self.low_error = open(os.path.join(store, 'LOW_ERROR')).read()
        os.utime(store, None)
        return self


# --------------------------------------------------------------------------- obligations

TAG_RE = re.compile(r'/\*@\s*([A-Z0-9 ,]+?)\s*:\s*([A-Za-z0-9_.\-]+)\s*\*/')

INT_CONV = re.compile(r'arithmetic overflow on (signed|unsigned) to (signed|unsigned) type conversion|'
                      r'arithmetic overflow on (signed|unsigned) type conversion')


def load_tags(path):
    """line -> (props, tag, clause text) for every /*@ Cxx Cyy : name */ comment of a contract source."""
    tags = {}
    if not os.path.exists(path):
        return tags
    lines = open(path).read().split('\n')
    for i, l in enumerate(lines, 1):
        m = TAG_RE.search(l)
        if m:
            props = [x for x in re.split(r'[ ,]+', m.group(1)) if x]
            text = TAG_RE.sub('', l).strip()
            j = i
            # clause text: from the tag to the line where the clause's parentheses balance
            depth = text.count('(') - text.count(')')
            while (depth > 0 or '(' not in text) and j < len(lines):
                nxt = lines[j].strip()
                text += ' ' + nxt
                depth += nxt.count('(') - nxt.count(')')
                j += 1
            tags[i] = (props, m.group(2), text)
            for k in range(i + 1, j + 1):
                tags.setdefault(k, (props, m.group(2), text))
    return tags


def classify(r, unit, tags):
    """Map one CBMC result entry to an obligation record (or None to drop it)."""
    pid = r['property']
    desc = r.get('description', '')
    sl = r.get('sourceLocation', {}) or {}
    f, line, fn = sl.get('file', ''), int(sl.get('line', 0) or 0), sl.get('function', '')
    ob = {'id': pid, 'unit': unit['name'], 'status': r['status'], 'desc': desc, 'file': f, 'line': line, 'fn': fn}
    in_contract_src = os.path.dirname(os.path.abspath(f)) == os.path.join(ROOT, 'contracts') if f and not f.startswith('<') else False
    if 'VACUITY_CANARY' in desc:
        ob['cls'] = 'vacuity'
        return ob
    if INT_CONV.search(desc):
        return None           # well-defined integer narrowing / sign conversion: pinned by postconditions instead
    if 'NaN on' in desc:
        return None
    tagged = tags.get((os.path.basename(f), line)) if in_contract_src else None
    if '.postcondition.' in pid or '.precondition.' in pid or (in_contract_src and '.assertion.' in pid) or \
            (in_contract_src and fn.startswith('contract_')):
        ob['cls'] = 'post' if '.precondition.' not in pid else 'pre'
        if tagged:
            ob['props'], ob['tag'], ob['clause'] = tagged
            if '__CPROVER_' not in tagged[2]:
                # contract generated by a macro: all its clauses share one source line; keep them apart by ordinal
                m = re.search(r'\.(postcondition|precondition|assertion)\.(\d+)$', pid)
                if m:
                    ob['tag'] = '%s#%s%s' % (tagged[1], m.group(1)[:4], m.group(2))
        else:
            ob['props'], ob['tag'], ob['clause'] = unit['props'].get('untagged', unit['serves']), \
                'L%d' % line, desc
        if '.postcondition.' not in pid and '.precondition.' not in pid and '.assertion.' not in pid:
            # a memory/arithmetic check raised while *evaluating* a contract clause
            ob['cls'] = 'post-eval'
        return ob
    if '.assigns.' in pid or 'is assignable' in desc or '.frees.' in pid:
        ob['cls'] = 'frame'
    elif 'loop_invariant' in pid or 'loop_decreases' in pid or 'loop_assigns' in pid or '.loop_' in pid \
            or 'loop invariant' in desc or 'decreases clause' in desc:
        ob['cls'] = 'loop'
    elif '.unwind.' in pid or 'unwinding assertion' in desc or '.recursion' in pid:
        ob['cls'] = 'unwind'
    elif '.pointer_dereference.' in pid or '.array_bounds.' in pid or '.pointer_arithmetic.' in pid or \
            '.pointer_primitives.' in pid or '.pointer.' in pid or 'memory-leak' in pid or '.precondition_instance.' in pid:
        ob['cls'] = 'memsafe'
    elif '.overflow.' in pid or '.undefined-shift.' in pid or '.division-by-zero.' in pid or '.NaN.' in pid \
            or '.enum-range-check.' in pid:
        ob['cls'] = 'ub'
    elif '.assertion.' in pid:
        if 'operator[] index' in desc or 'delete' in desc or 'pop_back' in desc or 'ill-formed' in desc \
                or 'ostream::write source' in desc or 'istream::read destination' in desc or 'matches the new' in desc \
                or 'default constructor' in desc:
            ob['cls'] = 'memsafe'
        else:
            ob['cls'] = 'internal'
    else:
        ob['cls'] = 'internal'
    ob['props'] = unit['props'].get(ob['cls'], unit['serves'] if ob['cls'] in ('loop', 'unwind', 'internal') else [])
    ob['tag'] = '%s@%s:%d' % (ob['cls'], os.path.basename(f), line)
    if unit.get('ub_by_function') and ob['cls'] == 'ub':
        # key the arithmetic / conversion checks of this unit by function, not by line (known findings stay matched when lines move)
        ob['tag'] = 'ub@%s:%s' % (os.path.basename(f), fn)
    if ob['cls'] in ('internal',) and f.startswith('<builtin'):
        ob['tag'] = 'dfcc-library'
    return ob


# --------------------------------------------------------------------------- running a unit

def unit_cmds(u, b, out):
    src = os.path.join(ROOT, u['src'])
    ugb = os.path.join(out, 'u.gb')
    igb = os.path.join(out, 'i.gb')
    trk = bool(u.get('track_alloc'))
    cc = ['goto-cc', '-D__CPROVER__VF'] + (['-DVF_TRACK_ALLOC'] if trk else []) + [('-D' + d) for d in u.get('defines', [])] + \
        b.inc + [os.path.join(b.bin, (('low_nolc_trk.gb' if trk else 'low_nolc.gb') if u.get('mode') == 'bmc' else ('low_trk.gb' if trk else 'low.gb'))), os.path.join(b.bin, 'vf_std_lc.gb' if u.get('model_loops') else ('vf_std_trk.gb' if trk else 'vf_std.gb')),
                 src, '--function', u['harness'], '-o', ugb]
    gi = ['goto-instrument']
    if u.get('mode') == 'bmc':
        # bounded stand-in: no contract instrumentation; callees are replaced by abstract stub functions
        # (their contracts in executable form) and the harness asserts the postconditions
        for k, v in (u.get('stubs') or {}).items():
            gi += ['--replace-calls', '%s:%s' % (k, v)]
        # ghost indices (vf_gk, vf_gv, ...) are file-scope variables: plain CBMC zero-initialises them (DFCC havocs statics
        # itself), which would reduce every 'for the element at the ghost index' clause to index 0 - make them nondeterministic
        gi += ['--nondet-static-matching', '.*vf_g[a-z][a-z0-9]?']
        gi += [ugb, igb]
        cb = ['cbmc', igb, '--json-ui', '--drop-unused-functions'] + NO_DEFAULTS + STD_CHECKS
        cb += ['--unwind', str(u.get('unwind', 5))]
        cb += ['--unwinding-assertions'] if not u.get('partial_loops') else ['--no-unwinding-assertions']
        for k, v in (u.get('unwindset') or {}).items():
            cb += ['--unwindset', '%s:%d' % (k, v)]
        if u.get('object_bits'):
            cb += ['--object-bits', str(u['object_bits'])]
        sat = u.get('sat', 'minisat')
        if sat == 'kissat':
            cb += ['--external-sat-solver', 'kissat']
        elif sat in ('z3', 'cvc5'):
            cb += ['--' + sat]
        elif sat != 'minisat':
            cb += ['--sat-solver', sat]
        cb += u.get('cbmc_flags', [])
        return cc, gi, cb, igb
    if u.get('mode', 'dfcc') == 'dfcc':
        gi += ['--dfcc', u['harness']]
    for e in u.get('enforce', []):
        gi += ['--enforce-contract-rec' if u.get('rec') else '--enforce-contract', e]
    for r in u.get('replace', []):
        gi += ['--replace-call-with-contract', r]
    if u.get('loops'):
        gi += ['--apply-loop-contracts']
        if u.get('loops') == 'no-inference':
            gi += ['--no-assigns-inference']
    gi += [ugb, igb]
    cb = ['cbmc', igb, '--json-ui'] + NO_DEFAULTS
    if not u.get('no_std_checks'):
        cb += STD_CHECKS
    if u.get('unwind') is not None:
        cb += ['--unwind', str(u['unwind']), '--unwinding-assertions']
    for k, v in (u.get('unwindset') or {}).items():
        cb += ['--unwindset', '%s:%d' % (k, v)]
    if u.get('object_bits'):
        cb += ['--object-bits', str(u['object_bits'])]
    if u.get('slice'):
        cb += ['--slice-formula']
    sat = u.get('sat', 'minisat')
    if sat == 'kissat':
        cb += ['--external-sat-solver', 'kissat']
    elif sat in ('z3', 'cvc5'):
        cb += ['--' + sat]
    elif sat != 'minisat':
        cb += ['--sat-solver', sat]
    cb += u.get('cbmc_flags', [])
    return cc, gi, cb, igb


def run_unit(u, b, keep=None, trace=False, use_cache=True):
    """Returns dict(unit, obligations, solver_s, wall_s, backend, error)."""
    t0 = time.time()
    if u.get('mode') == 'ast':
        # a fact read off the extraction itself (no solver): the library defines no mutable static storage
        st = getattr(b, 'statics', [])
        ob = {'id': 'static-storage', 'unit': u['name'], 'status': 'SUCCESS' if not st else 'FAILURE',
              'desc': 'no mutable static or namespace-scope variable in the library' + ((': found ' + ' | '.join(st)) if st else ''),
              'file': 'extract/lower.py', 'line': 0, 'fn': '', 'cls': 'frame', 'props': list(u['serves']),
              'tag': 'no-mutable-static-storage', 'clause': 'every variable of static storage duration defined by the library is const'}
        return {'unit': u['name'], 'obligations': [ob], 'error': None, 'solver_s': 0.0, 'wall_s': time.time() - t0, 'cached': False,
                'backend': 'clang AST (extraction)'}
    if getattr(b, 'low_error', None) and u.get('mode') != 'bmc':
        return {'unit': u['name'], 'obligations': [], 'solver_s': 0.0, 'wall_s': 0.0, 'cached': False, 'backend': '-',
                'error': 'the lowered code does not compile with the loop contracts of contracts/loops.json in place '
                         '(a contract no longer matches the code): ' + b.low_error[-600:]}
    out = tempfile.mkdtemp(prefix='u_%s.' % u['name'], dir=b.dir)
    res = {'unit': u['name'], 'obligations': [], 'error': None, 'solver_s': 0.0, 'cached': False,
           'backend': {'kissat': 'kissat (external SAT solver)', 'minisat': 'cbmc built-in SAT (minisat2)',
                       'z3': 'z3 (SMT2)', 'cvc5': 'cvc5 (SMT2)'}.get(u.get('sat', 'minisat'),
                                                                      'cbmc built-in SAT (%s)' % u.get('sat', 'minisat'))}
    try:
        cc, gi, cb, igb = unit_cmds(u, b, out)
        rc, so, se, _ = sh(cc, timeout=300)
        if rc != 0:
            res['error'] = 'goto-cc: ' + (so + se)[-2500:]
            return res
        if u.get('pre_unwind'):
            # loops without a loop contract inside a unit that applies loop contracts are unwound (with unwinding
            # assertions) before the contract instrumentation, as DFCC requires
            ugb = os.path.join(out, 'u.gb')
            pre = os.path.join(out, 'u_pre.gb')
            cmdp = ['goto-instrument'] + ([] if u.get('pre_unwind_assume') else ['--unwinding-assertions'])
            for k, v in u['pre_unwind'].items():
                cmdp += ['--unwindset', '%s:%d' % (k, v)]
            rc, so, se, _ = sh(cmdp + [ugb, pre], timeout=300)
            if rc != 0:
                res['error'] = 'goto-instrument (pre-unwind): ' + (so + se)[-2000:]
                return res
            gi = [pre if x == ugb else x for x in gi]
        rc, so, se, _ = sh(gi, timeout=600)
        if rc != 0:
            res['error'] = 'goto-instrument: ' + (so + se)[-2500:]
            return res
        if 'ignoring' in so + se and 'forall' in so + se:
            res['error'] = 'goto-instrument dropped a quantifier'
            return res
        # loops of the DFCC library iterate over write-set arrays sized by the number of assigns targets: give
        # exactly those loops a sufficient bound, independent of the unit's own --unwind
        m = re.search(r'assigns clauses of at most (\d+) targets', so + se)
        if m and u.get('mode', 'dfcc') == 'dfcc':
            nt = max(int(m.group(1)) + 3, int(u.get('unwind') or 0))
            rc2, so2, se2, _ = sh(['cbmc', igb, '--show-loops'], timeout=120)
            names = re.findall(r'^Loop (__CPROVER_contracts_\S+):', so2, re.M)
            for nm in names:
                cb += ['--unwindset', '%s:%d' % (nm, max(nt, 3))]
        res['checker_cmd'] = ' '.join(gi[:-2]) + ' <unit.gb> <out.gb> && ' + ' '.join(['cbmc', '<out.gb>'] + cb[2:])
        key = hashlib.sha256(open(igb, 'rb').read() + ' '.join(cb[2:]).encode()).hexdigest()
        cpath = os.path.join(CACHE, key + '.json.gz')   # compressed: one unit's JSON result can exceed 200 MB
        data = None
        if use_cache and not trace and os.path.exists(cpath):
            try:
                data = json.load(gzip.open(cpath, 'rt'))
                res['cached'] = True
            except Exception:
                data = None
        if data is None:
            if trace:
                cb = cb + ['--trace']
            rc, so, se, dt = sh(cb, timeout=int(os.environ.get('VF_TIMEOUT', u.get('timeout', 300))), mem=int(u.get('mem_gb', 12)) << 30)
            if rc == -9:
                res['error'] = 'cbmc timeout after %ss' % u.get('timeout', 300)
                return res
            try:
                data = json.loads(so)
            except Exception:
                res['error'] = 'cbmc produced no JSON (rc=%s): %s' % (rc, (so[-1500:] + se[-1500:]))
                return res
            data = [e for e in data if 'result' in e or e.get('messageType') in ('ERROR', 'STATUS-MESSAGE', 'WARNING')
                    or 'cProverStatus' in e]
            bad = any(e.get('messageType') == 'ERROR' for e in data) or \
                any(r.get('status') in ('ERROR', 'UNKNOWN') for e in data if 'result' in e for r in e['result'])
            if not trace and not bad:     # only definite verdicts are cached
                os.makedirs(CACHE, exist_ok=True)
                tmp = cpath + '.%d.tmp' % os.getpid()
                with gzip.open(tmp, 'wt', compresslevel=3) as fh:
                    json.dump({'data': data, 'solver_s': dt}, fh)
                os.replace(tmp, cpath)
            data = {'data': data, 'solver_s': dt}
        res['solver_s'] = data['solver_s']
        tags = {}
        for cf in sorted(os.listdir(os.path.join(ROOT, 'contracts'))):
            if cf.endswith(('.c', '.h')):
                for ln, t in load_tags(os.path.join(ROOT, 'contracts', cf)).items():
                    tags[(cf, ln)] = t
        results = None
        for e in data['data']:
            if e.get('messageType') == 'ERROR':
                res['error'] = 'cbmc error: ' + e.get('messageText', '')[:1500]
            if e.get('messageType') == 'WARNING' and 'ignoring' in e.get('messageText', ''):
                res['error'] = 'cbmc dropped a clause: ' + e.get('messageText', '')[:500]
            if 'result' in e:
                results = e['result']
        if results is None:
            res['error'] = res['error'] or 'cbmc gave no result section'
            return res
        for r in results:
            ob = classify(r, u, tags)
            if ob is None:
                continue
            if trace and r.get('trace') and r['status'] == 'FAILURE':
                ob['trace'] = r['trace']
            res['obligations'].append(ob)
        # CBMC reports UNKNOWN for checks that are shadowed by a failed assertion earlier on the same path; they are
        # not counted as discharged.  UNKNOWN without any failure in the unit means the solver gave no answer.
        if any(o['status'] == 'UNKNOWN' for o in res['obligations']) and \
                not any(o['status'] == 'FAILURE' and o['cls'] != 'vacuity' for o in res['obligations']):
            res['error'] = res['error'] or 'cbmc left obligations UNKNOWN (solver gave no definite answer)'
        if any(o['status'] == 'ERROR' for o in res['obligations']):
            res['error'] = res['error'] or 'cbmc: solver error (out of memory / resource limit) - verdicts incomplete'
        # vacuity: the canary must be reachable (i.e. reported FAILED)
        can = [o for o in res['obligations'] if o['cls'] == 'vacuity']
        real_fail = any(o['status'] == 'FAILURE' and o['cls'] != 'vacuity' for o in res['obligations'])
        # (a source file may hold several harnesses: canaries of harnesses that are not this unit's entry are unreachable)
        reached = [o for o in can if o['status'] == 'FAILURE' or (o['status'] == 'UNKNOWN' and real_fail)]
        if not reached:
            res['error'] = res['error'] or 'vacuity canary not reached: the unit\'s preconditions are unsatisfiable or the ' \
                                           'function cannot return'
        if any(o['cls'] == 'unwind' and o['status'] == 'FAILURE' for o in res['obligations']):
            res['error'] = res['error'] or 'an unwinding assertion failed: the unwind bound of this unit is too small ' \
                                           'for the code as it is now (undecided, not a violation)'
        if u.get('loops'):
            if not any(o['cls'] == 'loop' for o in res['obligations']):
                res['error'] = 'loop contracts were requested but no loop obligation was generated'
        res['obligations'] = [o for o in res['obligations'] if o['cls'] != 'vacuity']
        return res
    finally:
        res['wall_s'] = time.time() - t0
        if keep:
            shutil.copytree(out, keep, dirs_exist_ok=True)
        shutil.rmtree(out, ignore_errors=True)


# --------------------------------------------------------------------------- known findings

def load_known():
    known, fixed = [], []
    p = os.path.join(ROOT, 'KNOWN_FINDINGS.txt')
    if os.path.exists(p):
        for l in open(p):
            l = l.strip()
            if l.startswith('known:'):
                d = dict(re.findall(r'(\w+)=("[^"]*"|\S+)', l[6:]))
                d = {k: v.strip('"') for k, v in d.items()}
                known.append(d)
            elif l.startswith('fixed:'):
                fixed.append(l)
    return known, fixed


def ob_key(o):
    return '%s.%s' % (o['unit'], o.get('tag', o['id']))


# --------------------------------------------------------------------------- property check

def check_property(pid, tier, args):
    from units import UNITS, ASSUMPTIONS, PROPERTY_NOTES
    t0 = time.time()
    seed = int(os.environ.get('VERIF_SEED', '0') or 0)
    units = [u for u in UNITS if pid in u['serves'] and (tier == 'thorough' or u.get('tier', 'quick') == 'quick')]
    if not units:
        print('no unit serves %s in tier %s' % (pid, tier))
        return 2
    b = Build()
    evidence_path = os.path.join(ROOT, 'evidence', pid + '.json')
    os.makedirs(os.path.dirname(evidence_path), exist_ok=True)
    try:
        try:
            b.lower()
        except Undecided as e:
            print('UNDECIDED %s: %s' % (pid, e))
            return 2
        results = []
        with concurrent.futures.ThreadPoolExecutor(max_workers=int(os.environ.get('VF_JOBS', '16'))) as ex:
            futs = {ex.submit(run_unit, u, b, None, False, not args.no_cache): u for u in units}
            for f in concurrent.futures.as_completed(futs):
                results.append(f.result())
        results.sort(key=lambda r: r['unit'])
        known, fixed = load_known()
        umap = {u['name']: u for u in units}
        errors = [r for r in results if r['error']]
        obs, all_obs = [], {}
        for r in results:
            if r['error']:
                continue        # undecided unit: none of its verdicts is used
            for o in r['obligations']:
                all_obs[ob_key(o) + '#' + o['id']] = o
                if pid in o.get('props', []):
                    obs.append(o)
        bounded_units = [u['name'] for u in units if u.get('level') == 'B']
        proved = [o for o in obs if umap[o['unit']].get('level', 'P') != 'B']
        bounded = [o for o in obs if umap[o['unit']].get('level', 'P') == 'B']
        failed = [o for o in obs if o['status'] != 'SUCCESS']
        # group failures by obligation key (several CBMC checks may belong to one clause)
        fail_keys = {}
        for o in failed:
            fail_keys.setdefault(ob_key(o), []).append(o)
        status_of = {}
        for k, o in all_obs.items():
            kk = ob_key(o)
            status_of[kk] = status_of.get(kk, True) and o['status'] == 'SUCCESS'
        violations, known_lines = [], []
        for k, lst in sorted(fail_keys.items()):
            kf = [d for d in known if d.get('property') == pid and d.get('obligation') == k]
            suppressed = False
            for d in kf:
                w = d.get('witness')
                if w is None or status_of.get(w) is True:
                    known_lines.append('KNOWN-FINDING: property=%s %s [%s] %s' % (pid, k, d.get('fn', ''), d.get('what', '')))
                    suppressed = True
                    break
            if not suppressed:
                violations.append((k, lst))
        rc = 0
        for l in known_lines:
            print(l)
        if violations:
            rc = 1
            import replay
            for k, lst in violations:
                path, confirmed = replay.make_replay(pid, k, lst, umap[lst[0]['unit']], b, run_unit)
                print('VIOLATION property=%s replay=%s obligation=%s at %s:%s %s' % (
                    pid, path, k, lst[0]['file'], lst[0]['line'], '' if confirmed else 'no-failing-input-found'))
        if errors:
            for r in errors:
                print('UNDECIDED unit=%s: %s' % (r['unit'], (r['error'] or '')[:600].replace('\n', ' | ')))
            if rc == 0:
                rc = 2
        n_ob = len(proved)
        n_dis = len([o for o in proved if o['status'] == 'SUCCESS'])
        n_known = len([o for k, l in fail_keys.items() for o in l if (k, l) not in violations and
                       umap[o['unit']].get('level', 'P') != 'B'])
        samples = []
        seen = set()
        for o in obs:
            if o.get('clause') and ob_key(o) not in seen and len(samples) < 12:
                seen.add(ob_key(o))
                samples.append({'obligation': ob_key(o), 'clause': o['clause'][:400], 'status': o['status'],
                                'source': '%s:%s' % (o['file'], o['line'])})
        if not samples:
            for o in obs[:8]:
                samples.append({'obligation': ob_key(o), 'check': o['desc'][:200], 'status': o['status'],
                                'source': '%s:%s' % (o['file'], o['line'])})
        by_cls = {}
        for o in obs:
            by_cls[o['cls']] = by_cls.get(o['cls'], 0) + 1
        fns = sorted({e.split('/')[0] for u in units for e in u.get('enforce', [])})
        replaced = sorted({e.split('/')[0] for u in units for e in u.get('replace', [])})
        from lower import DROPS
        lvl = args.level or ('other' if pid in ('C18', 'C19') else 'proof')
        ev = {
            'property_id': pid, 'tier': tier, 'seed': seed, 'level': lvl,
            'coverage': {
                'obligations': n_ob - n_known,
                'discharged': n_dis,
                'known_finding_obligations_not_counted': n_known,
                'checker_cmd': next((r.get('checker_cmd') for r in results if r.get('checker_cmd')), 'cbmc'),
                'trusted_base': ASSUMPTIONS['trusted_base'],
                'explanation': PROPERTY_NOTES.get(pid, ''),
                'functions_under_contract': fns,
                'callees_replaced_by_contract': replaced,
                'obligations_by_class': by_cls,
                'units': [{'name': r['unit'], 'level': umap[r['unit']].get('level', 'P'),
                           'bound': umap[r['unit']].get('bound'),
                           'mode': umap[r['unit']].get('mode', 'dfcc'),
                           'backend': r['backend'], 'solver_s': round(r['solver_s'], 2),
                           'wall_s': round(r.get('wall_s', 0), 2), 'cached_result': r['cached'],
                           'obligations_for_property': len([o for o in r['obligations'] if pid in o.get('props', [])]),
                           'error': r['error']} for r in results],
                'bounded_units': [{'name': n, 'bound': umap[n].get('bound')} for n in bounded_units],
                'bounded_obligations_not_counted_as_proved': len(bounded),
                'extraction_drops': DROPS,
                'lowering_s': round(b.t_lower, 2),
                'samples': samples,
                'known_findings_reported': known_lines,
            },
            'assumptions': ASSUMPTIONS['global'] + [a for u in units for a in u.get('assumes', [])],
            'wall_s': round(time.time() - t0, 2),
            'violations': len(violations),
        }
        if ev['coverage']['obligations'] < 1 or ev['coverage']['discharged'] < 1:
            if rc == 0:
                print('UNDECIDED %s: no obligation discharged' % pid)
                rc = 2
        if not os.environ.get('VF_NO_EVIDENCE'):   # set while running checks against seeded changes
            json.dump(ev, open(evidence_path, 'w'), indent=1)
        print('%s tier=%s units=%d obligations=%d discharged=%d known=%d bounded=%d violations=%d wall=%.1fs -> %s' % (
            pid, tier, len(units), n_ob, n_dis, len(known_lines), len(bounded), len(violations), time.time() - t0,
            {0: 'HOLDS', 1: 'VIOLATED', 2: 'UNDECIDED'}[rc]))
        return rc
    finally:
        b.cleanup()


def cmd_unit(args):
    from units import UNITS
    us = [u for u in UNITS if u['name'] == args.name]
    if not us:
        print('unknown unit')
        return 2
    b = Build().lower()
    try:
        r = run_unit(us[0], b, keep=args.keep, trace=args.trace, use_cache=not args.no_cache)
        print('unit %s solver=%.1fs wall=%.1fs cached=%s error=%s' % (r['unit'], r['solver_s'], r['wall_s'], r['cached'],
                                                                      r['error']))
        cnt = {}
        for o in r['obligations']:
            cnt[(o['cls'], o['status'])] = cnt.get((o['cls'], o['status']), 0) + 1
            if o['status'] != 'SUCCESS' or args.verbose:
                print('  %-8s %-8s %s %s | %s | %s:%s' % (o['status'], o['cls'], ','.join(o.get('props', [])),
                                                          o.get('tag', ''), o['desc'][:110], os.path.basename(o['file']),
                                                          o['line']))
                if args.trace and o.get('trace'):
                    import replay
                    for l in replay.trace_inputs(o['trace'])[:60]:
                        print('        ' + l)
        print('  ', sorted(cnt.items()))
        return 0
    finally:
        b.cleanup()


def main():
    ap = argparse.ArgumentParser()
    sub = ap.add_subparsers(dest='cmd')
    s = sub.add_parser('check')
    s.add_argument('prop')
    s.add_argument('--tier', default=os.environ.get('VERIF_TIER', 'quick'))
    s.add_argument('--no-cache', action='store_true')
    s.add_argument('--level', default=None)
    s = sub.add_parser('unit')
    s.add_argument('name')
    s.add_argument('--trace', action='store_true')
    s.add_argument('--keep', default=None)
    s.add_argument('--no-cache', action='store_true')
    s.add_argument('-v', '--verbose', action='store_true')
    sub.add_parser('list')
    sub.add_parser('setup')
    a = ap.parse_args()
    if a.cmd == 'check':
        sys.exit(check_property(a.prop, a.tier, a))
    if a.cmd == 'unit':
        sys.exit(cmd_unit(a))
    if a.cmd == 'list':
        from units import UNITS
        for u in UNITS:
            print('%-34s %-8s %-2s %s' % (u['name'], u.get('tier', 'quick'), u.get('level', 'P'), ' '.join(u['serves'])))
        sys.exit(0)
    if a.cmd == 'setup':
        import selftest_run
        sys.exit(selftest_run.main())
    ap.print_help()
    sys.exit(2)


if __name__ == '__main__':
    main()
