"""Native replay adaptors: run a failed obligation's counterexample (or, where the pre-state cannot be rebuilt from
the trace, a fixed scenario that exercises the same clause) against the REAL library built from the same sources.

replay(pid, key, unit, result, build) -> (confirmed, lines)
  confirmed == True  : the replay program exited non-zero on the real code (defect reproduced)
  confirmed == False : no adaptor, or the real code satisfied the clause on that input (then `lines` says so)
"""
import os
import re
import shutil
import subprocess
import tempfile

ROOT = os.path.dirname(os.path.abspath(__file__))


def _assignments(trace):
    out = []
    for st in trace:
        if st.get('stepType') != 'assignment':
            continue
        v = st.get('value', {})
        out.append((st.get('lhs', ''), v.get('data', v.get('name', '')), (st.get('sourceLocation') or {})))
    return out


def _num(s, default=0):
    m = re.match(r'^\s*(-?\d+)', str(s))
    return int(m.group(1)) if m else default


def _last(assigns, pred):
    r = None
    for lhs, val, sl in assigns:
        if pred(lhs, sl):
            r = val
    return r


def _bytes_of_first_array(assigns, after_fn=None, count=4):
    """bytes written as dynamic_object$N[i] = v : take the object with most indexed byte assignments"""
    objs = {}
    for lhs, val, sl in assigns:
        m = re.match(r'^(dynamic_object(?:\$\d+)?)\[(\d+)l?\]$', lhs)
        if m:
            objs.setdefault(m.group(1), {})[int(m.group(2))] = _num(val) & 0xFF
    best = None
    for k, d in objs.items():
        if best is None or len(d) > len(objs[best]):
            best = k
    d = objs.get(best, {})
    return [d.get(i, 0) for i in range(count)], d


def _build_and_run(build, name, args, flags=()):
    out = tempfile.mkdtemp(prefix='replay.', dir=build.dir)
    env = dict(os.environ, VF_REPO=build.repo)
    r = subprocess.run([os.path.join(ROOT, 'replay_native', 'build.sh'), name, out] + list(flags), stdout=subprocess.PIPE,
                       stderr=subprocess.STDOUT, text=True, env=env)
    if r.returncode != 0:
        return None, 'replay program %s did not build: %s' % (name, r.stdout[-600:])
    env.update({'ASAN_OPTIONS': 'detect_leaks=0:alloc_dealloc_mismatch=1'})
    try:
        p = subprocess.run([os.path.join(out, name)] + [str(a) for a in args], stdout=subprocess.PIPE, stderr=subprocess.STDOUT,
                           text=True, timeout=120, env=env)
        return p.returncode, p.stdout[-1500:]
    except subprocess.TimeoutExpired:
        return 124, 'replay timed out'
    finally:
        shutil.rmtree(out, ignore_errors=True)


def _trace_of(result, key):
    for o in result['obligations']:
        if o['status'] != 'SUCCESS' and o.get('trace') and ('%s.%s' % (o['unit'], o.get('tag', o['id']))) == key:
            return o['trace']
    for o in result['obligations']:
        if o['status'] != 'SUCCESS' and o.get('trace'):
            return o['trace']
    return None


def _hex(kind):
    def f(key, unit, result, build):
        tr = _trace_of(result, key)
        if not tr:
            return None
        a = _assignments(tr)
        ln = _num(_last(a, lambda l, s: l in ('len', 'len_wrapper')), 4)
        b, _ = _bytes_of_first_array(a)
        return ('kernel_hex', [kind, ln] + b, ['-fsanitize=undefined', '-fno-sanitize-recover=all'], 'counterexample bytes %s len %d' % (b, ln))
    return f


def _dims(key, unit, result, build):
    tr = _trace_of(result, key)
    if not tr:
        return None
    a = _assignments(tr)
    n = _num(_last(a, lambda l, s: l in ('dataSize', 'dataSize_wrapper', 'n')), 0)
    _, d = _bytes_of_first_array(a, count=8)
    # dimensions are size_t elements of a malloc'd array: dynamic_object$K[i] = v
    dims = {}
    for lhs, val, sl in a:
        m = re.match(r'^(dynamic_object(?:\$\d+)?)\[(\d+)l?\]$', lhs)
        if m and 'parameter.c' in (sl.get('file') or ''):
            dims[int(m.group(2))] = _num(val)
    k = int(re.search(r'(\d+)$', unit['name']).group(1)) if re.search(r'_(\d+)$', unit['name']) else len(dims)
    return ('dim_consistent', [n] + [dims.get(i, 1) for i in range(k)], [], 'counterexample dataSize %d dims %s' % (n, [dims.get(i, 1) for i in range(k)]))


def _trim(key, unit, result, build):
    tr = _trace_of(result, key)
    if not tr:
        return None
    a = _assignments(tr)
    size = _num(_last(a, lambda l, s: l == 'm' and 'strings.c' in (s.get('file') or '')), 0)
    _, d = _bytes_of_first_array(a, count=9)
    return ('trim', [d.get(i, 32) for i in range(size)], [], 'counterexample string bytes %s' % [d.get(i, 32) for i in range(size)])


def _subframes(key, unit, result, build):
    tr = _trace_of(result, key)
    if not tr:
        return None
    a = _assignments(tr)
    meas = _num(_last(a, lambda l, s: l.endswith('._nbAnalogsMeasurement') and 'malloc' in (s.get('file') or '')), 0)
    k0 = _num(_last(a, lambda l, s: l.endswith('._nbAnalogByFrame') and 'malloc' in (s.get('file') or '')), 0)
    k = _num(_last(a, lambda l, s: l in ('k', 'k_wrapper')), 0)
    ch = meas // k0 if k0 else 0
    return ('header_subframes', [ch, k0, k], [], 'counterexample channels %d sub-frames %d -> %d' % (ch, k0, k))


def _scenario(name, flags=(), note=''):
    def f(key, unit, result, build):
        return (name, [], list(flags), 'fixed scenario exercising the clause (the pre-state of this unit is not rebuilt from the trace)' + note)
    return f


def _keyed(sub, name, flags=()):
    """scenario replay only for obligations whose key contains `sub` (other clauses of the unit have no replay)"""
    def f(key, unit, result, build):
        if sub not in key:
            return None
        return (name, [], list(flags), 'fixed scenario exercising the clause')
    return f


ADAPTORS = [
    (r'^hex2uint$', _hex('uint')),
    (r'^hex2int$', _hex('int')),
    (r'^readUint$|^readInt$', _hex('int')),
    (r'^isDimensionConsistent_\d+$', _dims),
    (r'^B_removeTrailingSpaces$', _trim),
    (r'^(B_)?Header_setNbAnalogByFrame$', _subframes),
    (r'^Point_copy$|^Channel_copy$|^Frame_add', _scenario('copies')),
    (r'^Data_frame_', _scenario('data_frame_semantics', ['-fsanitize=address'])),
    (r'^c3d_write$', _keyed('data-start', 'header_data_start')),
    (r'^c3d_write$', _scenario('c3d_write_unreported')),
    (r'^c3d_dtor$|^c3d_ctor$', _scenario('c3d_dtor_delete_kind', ['-fsanitize=address'])),
    (r'^Group_read$|^readString$', _scenario('desc_length_signed')),
    (r'^Parameters_write', _scenario('data_start_block')),
    (r'^Header_write$', _scenario('header_write_label')),
    (r'^c3d_frame_guards$', _keyed('label-order', 'frame_point_order')),
    (r'^B_readParam_', _scenario('param_matrix_eof', ['-O1'])),
    (r'^B_Data_read$', _keyed('truncated-data', 'data_counts_eof', ['-O1'])),
    (r'^B_Parameter_read$', _keyed('work-bounded', 'param_zero_last_dim', ['-O1'])),
    (r'^B_Parameter_read$', _scenario('param_char_scalar', ['-fsanitize=address'])),
    (r'^c3d_updateHeader_rates$', _scenario('update_header_rate_ub', ['-fsanitize=float-cast-overflow', '-fno-sanitize-recover=all'])),
    (r'^c3d_updateHeader$', _scenario('header_frames_after_declare')),
    (r'^c3d_parameter$', _scenario('param_untyped_creates_group')),
    (r'^B_c3d_(point|analog)_frames$', _scenario('column_adder_partial')),
]


def replay(pid, key, unit, result, build):
    for pat, fn in ADAPTORS:
        if re.search(pat, unit['name']):
            spec = fn(key, unit, result, build)
            if spec is None:
                return False, ['no counterexample trace available for the replay adaptor']
            name, args, flags, note = spec
            rc, out = _build_and_run(build, name, args, flags)
            lines = ['native replay: replay_native/%s.cpp %s   [%s]' % (name, ' '.join(str(a) for a in args), note)]
            if rc is None:
                return False, lines + [out]
            lines += ['  | ' + l for l in out.strip().split('\n')[-12:]]
            if rc != 0:
                lines.append('native replay exit code %d: the real library violates the clause on this input' % rc)
                return True, lines
            lines.append('native replay exit code 0: the real library satisfies what this replay checks on this input '
                         '(the obligation still fails in the verifier: reported without a failing input)')
            return False, lines
    return False, ['no native replay adaptor for unit %s' % unit['name']]
