#!/usr/bin/env python3
"""Regenerates MANIFEST.json from the unit registry (claimed = properties served by at least one quick unit)."""
import json, os, sys
ROOT = os.path.dirname(os.path.abspath(__file__))
sys.path.insert(0, ROOT)
from units import UNITS
from manifest_text import LEVEL_TEXT, NOT_APPLICABLE, NOTES

props = [json.loads(l) for l in open(os.path.join(ROOT, 'properties.jsonl'))]
checks, na = [], []
for p in props:
    pid = p['id']
    quick = [u for u in UNITS if pid in u['serves'] and u.get('tier', 'quick') == 'quick']
    if pid in NOT_APPLICABLE or not quick:
        na.append({'property_id': pid, 'reason': NOT_APPLICABLE.get(pid, 'no proof unit serves this property yet')})
        continue
    lt = LEVEL_TEXT[pid]
    checks.append({
        'property_id': pid,
        'quick_cmd': 'python3 vf.py check %s --tier quick' % pid,
        'thorough_cmd': 'python3 vf.py check %s --tier thorough' % pid,
        'evidence_file': '/verif/evidence/%s.json' % pid,
        'replay_cmd_template': 'cat {path}',
        'engine': 'vf',
        'level_claimed': {'category': lt['category'], 'text': lt['text'], 'design_ref': lt['ref']},
        'level_note': lt['note'],
        'technique': lt['technique'],
    })
m = {
    'version': 1,
    'setup_cmd': 'python3 vf.py setup',
    'hooks': {'guard': 'EZC3D_VERIF', 'enable': 'none needed: the machinery reads the unmodified sources (clang AST); no hook is compiled in',
              'baseline_off_cmd': 'cmake --build /repo/_build && ctest --test-dir /repo/_build -j8 --timeout 900',
              'source_commits': [], 'add_only': True},
    'engines': [{'name': 'vf', 'path': '/verif/vf.py', 'serves_properties': [c['property_id'] for c in checks],
                 'kind_free_text': 'contract-based deductive verification: clang-AST lowering of the real C++ functions to C, '
                                   'CBMC 6.11 function contracts (goto-instrument --dfcc --enforce-contract / --replace-call-with-contract / '
                                   '--apply-loop-contracts), SAT back ends'}],
    'checks': checks,
    'notes': NOTES,
    'not_applicable': na,
}
json.dump(m, open(os.path.join(ROOT, 'MANIFEST.json'), 'w'), indent=1)
print('claimed:', [c['property_id'] for c in checks], 'not applicable:', [n['property_id'] for n in na])
