#!/usr/bin/env python3
"""setup_cmd: offline self-tests of the machinery itself (no result of these is a property verdict).

 1. pow(256,i), i=0..3, is exact on the installed libm (the assumed contract of vf_pow).
 2. Lowering differential test: the lowered C library + std model, compiled natively, must write byte-identical
    files to the real C++ library on a build scenario and on load->save of every vendor file in the repository.
 3. Mutation self-test: three deliberately broken function bodies in a scratch copy of /repo must each make
    a named obligation fail (guards against a generator that silently verifies nothing).
"""
import glob
import os
import shutil
import subprocess
import sys
import tempfile

ROOT = os.path.dirname(os.path.abspath(__file__))
sys.path.insert(0, ROOT)
sys.path.insert(0, os.path.join(ROOT, 'extract'))
REPO = os.environ.get('VF_REPO', '/repo')


def run(cmd, **kw):
    return subprocess.run(cmd, stdout=subprocess.PIPE, stderr=subprocess.STDOUT, text=True, **kw)


def pow_check(tmp):
    src = os.path.join(tmp, 'powchk.c')
    open(src, 'w').write('#include <math.h>\n#include <stdio.h>\nint main(void){volatile double b=256.0;double w[4]={1,256,65536,16777216};'
                         'for(int i=0;i<4;i++){volatile double e=i; if(pow(b,e)!=w[i]){printf("pow(256,%d) inexact\\n",i);return 1;}}return 0;}\n')
    r = run(['gcc', '-O0', src, '-o', os.path.join(tmp, 'powchk'), '-lm'])
    if r.returncode:
        print(r.stdout)
        return False
    return run([os.path.join(tmp, 'powchk')]).returncode == 0


def difftest(tmp):
    import vf
    b = vf.Build(workdir=os.path.join(tmp, 'b'))
    os.makedirs(b.dir, exist_ok=True)
    b.lower()
    inc = ['-I', os.path.join(ROOT, 'model'), '-I', b.gen]
    r = run(['gcc', '-std=c11', '-O1', '-w'] + inc + [os.path.join(b.gen, 'low.c'), os.path.join(ROOT, 'model', 'vf_std.c'),
                                                      os.path.join(ROOT, 'selftest', 'difftest.c'), '-o', os.path.join(tmp, 'dt_c'), '-lm'])
    if r.returncode:
        print(r.stdout[-3000:])
        return False
    r = run(['g++', '-std=c++11', '-O0', '-w', '-I', os.path.join(REPO, 'include'), os.path.join(ROOT, 'selftest', 'difftest.cpp')] +
            sorted(glob.glob(os.path.join(REPO, 'src', '*.cpp'))) + ['-o', os.path.join(tmp, 'dt_cpp')])
    if r.returncode:
        print(r.stdout[-3000:])
        return False
    ok = True
    scen = [('build', [])]
    files = sorted(glob.glob(os.path.join(REPO, 'test', 'c3dFiles', '*.c3d')))
    for f in files:
        scen.append(('reload', [f]))
    for name, args in scen:
        oc, op = os.path.join(tmp, 'out_c.c3d'), os.path.join(tmp, 'out_cpp.c3d')
        for p in (oc, op):
            if os.path.exists(p):
                os.remove(p)
        rc = run([os.path.join(tmp, 'dt_c'), name] + args + [oc])
        rp = run([os.path.join(tmp, 'dt_cpp'), name] + args + [op])
        same = rc.returncode == 0 and rp.returncode == 0 and open(oc, 'rb').read() == open(op, 'rb').read()
        print('  difftest %-6s %-40s lowered rc=%d real rc=%d %s' % (name, os.path.basename(args[0]) if args else '', rc.returncode,
                                                                    rp.returncode, 'IDENTICAL' if same else 'DIFFERENT'))
        if not same:
            print(rc.stdout[-500:], rp.stdout[-500:])
            ok = False
    return ok


MUTANTS = [
    # (file, old text, new text, unit, obligation tag that must fail)
    ('src/ezc3d.cpp', 'if (tp > max / 2)', 'if (tp >= max / 2)', 'hex2int', 'hex2int.int8'),
    ('src/Header.cpp', 'size_t lastFrame(_lastFrame + 1); // 1-based!', 'size_t lastFrame(_lastFrame); // 1-based!', 'Header_write',
     'Header_write.last-frame-1-based'),
    ('src/Point.cpp', 'z(p.z());', 'z(p.y());', 'Point_copy', 'Point_copy.z-kept'),
]


def mutation_selftest(tmp):
    import vf
    from units import UNITS
    ok = True
    for i, (f, old, new, unit, tag) in enumerate(MUTANTS):
        scratch = os.path.join(tmp, 'repo%d' % i)
        os.makedirs(scratch)
        for d in ('src', 'include'):
            shutil.copytree(os.path.join(REPO, d), os.path.join(scratch, d))
        p = os.path.join(scratch, f)
        s = open(p).read()
        if old not in s:
            print('  mutation self-test: anchor text not found in %s (source changed): skipped' % f)
            continue
        open(p, 'w').write(s.replace(old, new, 1))
        b = vf.Build(repo=scratch, workdir=os.path.join(tmp, 'mb%d' % i))
        os.makedirs(b.dir, exist_ok=True)
        b.lower()
        u = [x for x in UNITS if x['name'] == unit][0]
        r = vf.run_unit(u, b, None, False, False)
        failed = [o.get('tag') for o in r['obligations'] if o['status'] != 'SUCCESS']
        hit = tag in failed
        print('  mutation self-test: %-28s -> %s %s' % (f + ' [' + new[:24] + ']', tag, 'FAILS as required' if hit else
                                                         'NOT DETECTED (%s)' % (r['error'] or failed[:3])))
        ok = ok and hit
    return ok


def main():
    tmp = tempfile.mkdtemp(prefix='ezc3d-verif-setup.', dir=os.environ.get('VERIF_SCRATCH', '/var/tmp'))
    try:
        for tool in ('clang++', 'goto-cc', 'goto-instrument', 'cbmc', 'kissat', 'gcc', 'g++'):
            if shutil.which(tool) is None:
                print('setup: missing tool %s' % tool)
                return 1
        ok = True
        r = pow_check(tmp)
        print('pow(256, 0..3) exact on this libm: %s' % r)
        ok = ok and r
        r = difftest(tmp)
        print('lowering differential test: %s' % ('passed' if r else 'FAILED'))
        ok = ok and r
        r = mutation_selftest(tmp)
        print('mutation self-test: %s' % ('passed' if r else 'FAILED'))
        ok = ok and r
        return 0 if ok else 1
    finally:
        shutil.rmtree(tmp, ignore_errors=True)


if __name__ == '__main__':
    sys.exit(main())
