"""Replay of failed obligations (see DESIGN.md 2.5)."""
import json
import os

ROOT = os.path.dirname(os.path.abspath(__file__))


def trace_inputs(trace):
    """Readable list of the assignments of a CBMC JSON trace that matter for a replay."""
    out = []
    for st in trace:
        if st.get('stepType') != 'assignment' or st.get('hidden'):
            continue
        lhs = st.get('lhs', '')
        if lhs.startswith('__CPROVER') or lhs.startswith('__'):
            continue
        v = st.get('value', {})
        val = v.get('data', v.get('name', ''))
        sl = st.get('sourceLocation', {}) or {}
        out.append('%s = %s   (%s:%s)' % (lhs, val, os.path.basename(sl.get('file', '')), sl.get('line', '')))
    return out


def make_replay(pid, key, obs, unit, build, run_unit):
    """Write the replay file of a failed obligation; returns (path, confirmed_on_real_code)."""
    os.makedirs(os.path.join(ROOT, 'replays'), exist_ok=True)
    path = os.path.join(ROOT, 'replays', '%s_%s.txt' % (pid, key.replace('/', '_').replace(':', '_').replace('@', '_')))
    lines = ['property: %s' % pid, 'failed obligation: %s' % key, 'unit: %s' % unit['name']]
    for o in obs:
        lines.append('  cbmc check %s: %s  [%s:%s in %s]' % (o['id'], o['desc'], o['file'], o['line'], o['fn']))
        if o.get('clause'):
            lines.append('  clause: %s' % o['clause'])
    confirmed = False
    try:
        r = run_unit(unit, build, None, True, False)
        for o in r['obligations']:
            if o['status'] != 'SUCCESS' and o.get('trace') and ('%s.%s' % (o['unit'], o.get('tag', o['id']))) == key:
                lines.append('counterexample (CBMC trace, assignments in order):')
                lines += ['  ' + l for l in trace_inputs(o['trace'])[-200:]]
                break
        try:
            import adaptors
            confirmed, extra = adaptors.replay(pid, key, unit, r, build)
            lines += extra
        except ImportError:
            lines.append('no native replay adaptor for this unit')
    except Exception as e:  # replay is best effort; the violation is reported anyway
        lines.append('trace generation failed: %s' % e)
    if not confirmed:
        lines.append('no-failing-input-found')
    open(path, 'w').write('\n'.join(lines) + '\n')
    return path, confirmed
