"""Registry of proof units (DESIGN.md 2.4 / 3)."""

ASSUMPTIONS = {
    'trusted_base': [
        'clang 14 AST of the C++11 sources (same reading as the g++ build)',
        'extract/lower.py: closed AST-to-C lowering (drops listed under extraction_drops); cross-checked natively on '
        'every setup by byte-comparing files written by the lowered code with files written by the real library',
        'model/vf_std.{h,c}: C model of the std:: surface (vector, string, fstream, stringstream, new/delete)',
        'CBMC 6.11: goto-cc, goto-instrument contract instrumentation (DFCC), SAT back ends',
    ],
    'global': [
        'little-endian LP64 target, IEEE-754 binary32/64, two\'s complement, 8-bit bytes',
        'pow(256.0, i) is exact for i in 0..3 (assumed contract of vf_pow; re-checked natively by setup)',
        'std::bad_alloc and std::length_error of the standard containers are outside the model',
        'iostream failed-state semantics as transcribed from [istream.unformatted]/[ostream.unformatted] (C++11)',
    ],
}

PROPERTY_NOTES = {
    'C01': 'Round trip decided per record type from codec contracts: copy constructors keep every component; header layout; float/int kernels.',
    'C02': 'Reader kernels proved equal to the little-endian / two\'s-complement reading of the bytes for every byte string.',
    'C03': 'Header layout of saved files proved against the specification table (appendix A.1 of DESIGN.md).',
    'C04': 'Header fields that are not derivable from parameters are proved to be re-emitted from the loaded members.',
    'C05': 'Derived header counts proved against their arithmetic meaning; the c3d-level invariant units are listed in DESIGN.md.',
    'C06': 'Append / replace / extend proved for every data-set size and index, other frames unchanged at a ghost index.',
    'C07': '',
    'C08': 'Stored frames proved to own fresh copies of points and analogs, distinct from the caller\'s and from other frames\'.',
    'C09': 'Shape predicate proved equal to the product predicate; setters proved to store exactly what was given or to refuse.',
    'C10': 'Exceptional postconditions: refused => unchanged, for the mutators under contract.',
    'C11': 'Positional accessors proved for every 64-bit index; typed getters proved to guard on the type.',
    'C12': 'Byte assembly proved for every bit pattern (symbolic bytes), floats compared as bit patterns.',
    'C13': 'CBMC pointer / bounds / allocation-kind / container-index obligations of every unit under the valid-state preconditions.',
    'C14': 'Writers assign only the stream (frame conditions) and every output byte equals an expression over the object.',
    'C15': 'c3d::write proved to throw ios_failure whenever open, any write or the final flush fails (nondeterministic faults).',
    'C16': '',
    'C17': 'Header words proved exact at the 16-bit limits; over-limit clauses are the recorded known findings.',
    'C18': 'Sufficient source-level condition: frame conditions of every unit name only objects reachable from the arguments; '
           'no schedule is explored (contracts cannot).',
    'C19': 'Sufficient source-level condition: no undefined behaviour (overflow, shift, out-of-range conversion) and a unique '
           'functional result in the anchored functions; build configurations are not explored (contracts cannot).',
}

K = 'contracts/kernels.c'
KC = 'contracts/kernel_contracts.h'


def U(name, src, harness, enforce, serves, **kw):
    d = dict(name=name, src=src, harness=harness, enforce=enforce, serves=serves, props=kw.pop('props', {}))
    d.update(kw)
    d['props'].setdefault('memsafe', [p for p in ('C13',) if p in serves])
    d['props'].setdefault('ub', [p for p in ('C19', 'C13') if p in serves])
    d['props'].setdefault('frame', [p for p in ('C14', 'C18', 'C10') if p in serves])
    return d


A = 'contracts/accessors.c'


def acc(fn, serves=('C11', 'C13', 'C18')):
    return U(fn.replace('__', '_'), A, 'h_' + fn, ['%s/contract_%s' % (fn, fn)], list(serves), timeout=600)


CC = 'contracts/copyctors.c'

FR = 'contracts/frame.c'

DA = 'contracts/data.c'

WR = 'contracts/writers.c'

IO = 'contracts/c3dio.c'

PA = 'contracts/parameter.c'

RD = 'contracts/readers.c'
_RD_SERVES = ['C02', 'C12', 'C13', 'C16', 'C18', 'C10']

ST = 'contracts/strings.c'

CF = 'contracts/c3dframe.c'

RC = 'contracts/records.c'

PT = 'contracts/points.c'
_PT_REPL = ['vf_vec_Point_push_back/contract_vf_vec_Point_push_back', 'vf_vec_Point_resize/contract_vf_vec_Point_resize',
            'vf_string_assign/contract_vf_string_assign', 'vf_vec_float_assign/contract_vf_vec_float_assign']

LK = 'contracts/lookups.c'

BW = 'contracts/bounded_walker.c'
BH = 'contracts/bounded_header_read.c'
BD = 'contracts/bounded_data_read.c'

UNITS = [
    U('B_Data_read', BD, 'h_B_Data_read', [], ['C01', 'C02', 'C03', 'C13', 'C16'], mode='bmc', unwind=6, timeout=1200, level='B',
      unwindset={'vf_string_ctor_lit.0': 20},
      stubs={'c3d__readInt': 'stubd_readInt', 'c3d__readFloat': 'stubd_readFloat', 'Parameters__group__str': 'stubd_group',
             'Group__parameter__str': 'stubd_parameter', 'vf_vec_string_assign': 'stubd_vec_string_assign',
             'vf_vec_Frame_resize': 'stubd_vec_Frame_resize', 'Frame__ctor': 'stubd_Frame__ctor', 'Points__ctor__sz': 'stubd_Points__ctor__sz',
             'Analogs__ctor__sz': 'stubd_Analogs__ctor__sz', 'SubFrame__ctor__sz': 'stubd_SubFrame__ctor__sz',
             'Point__ctor__str': 'stubd_Point__ctor__str', 'Channel__ctor__str': 'stubd_Channel__ctor__str',
             'Point__name__str': 'stubd_Point__name__str', 'Channel__name__str': 'stubd_Channel__name__str',
             'vf_sstream_ctor': 'stubd_sstream_ctor', 'vf_sstream_put_lit': 'stubd_sstream_put_lit', 'vf_sstream_put_ulong': 'stubd_sstream_put_ulong',
             'vf_sstream_str': 'stubd_sstream_str', 'Points__point__Point_sz': 'stubd_Points__point', 'Frame__add__Points': 'stubd_Frame__add__Points',
             'SubFrame__channel__Channel_sz': 'stubd_SubFrame__channel', 'Analogs__subframe__SubFrame_sz': 'stubd_Analogs__subframe',
             'Frame__add__Analogs': 'stubd_Frame__add__Analogs'},
      object_bits=13, bound='frame reader Data::Data(c3d&): at most 2 frames x 2 points x 2 sub-frames x 2 channels, 0..2 labels; callees are recording stubs',
      props={'memsafe': ['C13', 'C16']},
      assumes=['bounded model checking, not a proof; the header is consistent (as updateHeader leaves it)']),
    U('Point_write', WR, 'h_Point_write', ['Point__write/contract_Point__write'], ['C01', 'C03', 'C12', 'C13', 'C14', 'C10', 'C18'],
      unwind=6, timeout=300),
    U('Channel_write', WR, 'h_Channel_write', ['Channel__write/contract_Channel__write'], ['C01', 'C03', 'C12', 'C13', 'C14', 'C10', 'C18'],
      unwind=6, timeout=300),
    U('Header_read', BH, 'h_Header_read', [], ['C02', 'C04', 'C05', 'C12', 'C13', 'C16', 'C17', 'C19'], mode='bmc', unwind=20, timeout=900,
      stubs={'c3d__readUint': 'stubv_readUint', 'c3d__readInt': 'stubv_readInt', 'c3d__readFloat': 'stubv_readFloat',
             'c3d__readString': 'stubv_readString', 'vf_string_assign': 'stubv_string_assign'},
      level='PB', object_bits=10,
      bound='complete unwinding (Header::read has only constant-bound loops: 18/9/18 events; unwinding assertions on); header '
            'not preceded by zero bytes; image = any 512 bytes',
      props={'memsafe': ['C13', 'C16'], 'ub': ['C19', 'C13']},
      assumes=['plain symbolic execution of the real Header::read; the read helpers are value stubs = the executable form of their '
               'proved contracts (units readUint / readInt / readFloat / readString)']),
    U('B_Parameters_read', BW, 'h_B_Parameters_read', [], ['C02', 'C13', 'C16'], mode='bmc',
      stubs={'c3d__readUint': 'stub_readUint', 'c3d__readInt': 'stub_readInt', 'Group__read': 'stub_Group__read',
             'Group__parameter__c3d_int': 'stub_Group__parameter_file', 'Group__ctor': 'stub_Group__ctor',
             'vf_vec_Group_push_back': 'stub_vec_Group_push_back'},
      unwind=3, unwindset={'Parameters__ctor__c3d.1': 6, 'vf_string_ctor_lit.0': 2}, partial_loops=True, timeout=1200, level='B',
      defines=['VF_BYTE_BOUND=4'],
      object_bits=13, bound='record walker of Parameters::Parameters(c3d&): the first 2 records (outer loop cut after 2 iterations), group ids -4..4, file positions below 2 GiB, '
      'callees abstracted by stubs', props={'memsafe': ['C13', 'C16']},
      assumes=['bounded model checking, not a proof: callees are abstract stubs; termination of the walker is not examined'])] + [U(fn.replace('__', '_'), LK, 'h_' + fn, ['%s/contract_%s' % (fn, fn)], ['C11', 'C13', 'C18'],
           replace=['vf_string_compare/contract_oracle_%s_vf_string_compare' % el], unwind=5, loops=True, timeout=5400, level='PB',
           tier='thorough',
           bound='containers of at most 100000 elements',
           assumes=['string equality is an abstract oracle (ghost array); std::string::compare answers 0 exactly for equal '
                    'strings (model contract, assumed)'])
         for fn, el in (('Points__pointIdx', 'Point'), ('SubFrame__channelIdx', 'Channel'), ('Group__parameterIdx', 'Parameter'),
                        ('Parameters__groupIdx', 'Group'))] + [
    U('Group_parameter', LK, 'h_Group_parameter', ['Group__parameter__Parameter/contract_Group__parameter__Parameter'],
      ['C09', 'C10', 'C11', 'C13', 'C18'],
      replace=['vf_string_compare/contract_oracle_Parameter_vf_string_compare', 'vf_vec_Parameter_push_back/contract_rec_vf_vec_Parameter_push_back',
               'Parameter__assign/contract_rec_Parameter__assign'],
      unwind=5, loops=True, timeout=7200, level='PB', tier='thorough', bound='groups of at most 100000 parameters',
      assumes=['string equality oracle as for the look-ups; the store itself (vector growth / parameter assignment) is recorded, '
               'not executed'])] + [U('Points_point_' + c, PT, 'h_Points_point_' + c, ['Points__point__Point_sz/contract_Points__point__Point_sz'],
           ['C06', 'C08', 'C10', 'C13', 'C01', 'C18'], replace=_PT_REPL, unwind=5, timeout=1200, level='PB', mem_gb=30,
           bound='at most 100000 points per frame (the format holds 255)',
           assumes=['contracts of vector<Point> growth (relocation = the required meaning of Point(const Point&)) are assumed'])
         for c in ('append',)] + [
    U('Points_point_alias', PT, 'h_Points_point_alias', ['Points__point__Point_sz/contract_alias_Points__point__Point_sz'],
      ['C13', 'C06', 'C10'], replace=_PT_REPL[:2] + ['Point__assign/contract_shallow_Point__assign', 'Point__ctor__Point/contract_shallow_Point__ctor__Point'], unwind=5, timeout=1200,
      level='PB', bound='at most 100000 points per frame'),
    # (the DFCC unit B_Parameter_write_char1d - 20+ min, over its time limit under load - was replaced by the bmc-mode unit
    #  B_Parameter_write_char1d_bmc, which decides the same clauses in seconds; its contract remains in contracts/records.c)
    # (unit B_Parameters_read - the record walker of Parameters::Parameters(c3d&) - was removed: with loop contracts and
    #  even unwound to a single record it does not finish in 30 min / 40 GB; its contracts remain in contracts/readers.c)
    U('Group_write', RC, 'h_Group_write', ['Group__write/contract_Group__write'], ['C01', 'C03', 'C04', 'C13', 'C14', 'C17', 'C10', 'C18'],
      replace=['vf_stream_write/contract_vf_stream_write', 'ezc3d__toUpper/contract_ezc3d__toUpper'], unwind=5, timeout=5400,
      tier='thorough', sat='kissat',
      level='PB', bound='name <= 127 and description <= 255 characters (format capacity); group without parameters'),
    U('Group_write_limits', RC, 'h_L_Group_write', ['Group__write/contract_L_Group__write'], ['C17'],
      replace=['vf_stream_write/contract_vf_stream_write', 'ezc3d__toUpper/contract_ezc3d__toUpper'], unwind=5, timeout=900,
      props={'memsafe': [], 'ub': [], 'frame': []}),
    U('c3d_frame_guards', CF, 'h_c3d_frame', ['c3d__frame/contract_c3d__frame'], ['C07', 'C10', 'C13', 'C06', 'C18', 'C05', 'C01'],
      replace=['Parameters__group__str/contract_dir_Parameters__group__str', 'Group__parameter__str/contract_dir_Group__parameter__str',
               'Points__pointIdx/contract_rec_Points__pointIdx', 'Data__frame__Frame_sz/contract_rec_Data__frame__Frame_sz',
               'c3d__updateParameters/contract_rec_c3d__updateParameters', 'vf_vec_string_ctor_copy/contract_copy_vf_vec_string_ctor_copy'],
      unwind=8, timeout=900, level='PB', object_bits=12,
      bound='the scalar guards are symbolic over every state; the label loop is unwound for at most 2 entries of POINT:LABELS',
      assumes=['by-name accessors resolve the literals POINT/ANALOG/USED/RATE/LABELS to the mandatory entries (ghost directory, '
               'VALID_C3D); updateParameters does not throw when called without new names (recording contract)']),
    U('c3d_updateHeader', 'contracts/update_header.c', 'h_c3d_updateHeader', [], ['C05', 'C10', 'C13', 'C17', 'C19'], mode='bmc',
      stubs={'Parameters__group__str': 'stubu_group', 'Group__parameter__str': 'stubu_parameter',
             'Header__nbAnalogs__void': 'stubu_nbAnalogs', 'Header__nbAnalogs__sz': 'stubu_setNbAnalogs',
             'Header__nbFrames': 'stubu_nbFrames', 'Header__nbAnalogByFrame__sz': 'stubu_setNbAnalogByFrame'},
      unwind=8, timeout=900, level='PB', object_bits=12, sat='cvc5',
      bound='complete symbolic execution (the updater has no loop of its own; literal copies unwound completely); header words '
            'and the parameters they follow <= 65535 (16-bit header words); rates within 0..200000 Hz (where the float -> '
            'integer conversions of the updater are defined)',
      props={'memsafe': ['C13'], 'ub': ['C19', 'C13']},
      assumes=['plain symbolic execution of the real updateHeader; by-name accessors resolve the literals POINT/ANALOG/USED/RATE/FRAMES '
               'to the mandatory entries (ghost directory, VALID_C3D); the multiplying / dividing header getters and setters are '
               'stubs = their proved contracts (units Header_nbAnalogs, Header_setNbAnalogs, Header_nbFrames, Header_setNbAnalogByFrame) '
               'restated over the abstract view (sub-frames, channels, samples exact?) so that no multiplier enters the formula',
               'SAMPLES_FIT: channels x sub-frames <= 65535 in every intermediate state (the 16-bit samples word; beyond it see finding C17)']),
    U('c3d_updateHeader_rates', 'contracts/update_header.c', 'h_c3d_updateHeader', [], ['C19'], mode='bmc', defines=['VF_WIDE_RATES'], ub_by_function=True,
      stubs={'Parameters__group__str': 'stubu_group', 'Group__parameter__str': 'stubu_parameter',
             'Header__nbAnalogs__void': 'stubu_nbAnalogs', 'Header__nbAnalogs__sz': 'stubu_setNbAnalogs',
             'Header__nbFrames': 'stubu_nbFrames', 'Header__nbAnalogByFrame__sz': 'stubu_setNbAnalogByFrame'},
      unwind=8, timeout=900, level='PB', object_bits=12, sat='cvc5',
      bound='complete symbolic execution (the updater has no loop of its own; literal copies unwound completely); header words '
            'and the parameters they follow <= 65535 (16-bit header words); any finite non-negative rate up to 1e9 Hz: only the conversion checks are reported',
      props={'memsafe': [], 'ub': ['C19'], 'post': []},
      assumes=['plain symbolic execution of the real updateHeader; by-name accessors resolve the literals POINT/ANALOG/USED/RATE/FRAMES '
               'to the mandatory entries (ghost directory, VALID_C3D); the multiplying / dividing header getters and setters are '
               'stubs = their proved contracts (units Header_nbAnalogs, Header_setNbAnalogs, Header_nbFrames, Header_setNbAnalogByFrame) '
               'restated over the abstract view (sub-frames, channels, samples exact?) so that no multiplier enters the formula',
               'SAMPLES_FIT: channels x sub-frames <= 65535 in every intermediate state (the 16-bit samples word; beyond it see finding C17)']),
    U('c3d_parameter', 'contracts/c3dparameter.c', 'h_c3d_parameter', ['c3d__parameter/contract_c3d__parameter'],
      ['C09', 'C10', 'C05', 'C13', 'C18'],
      replace=['Parameters__groupIdx/contract_cp_Parameters__groupIdx', 'Group__ctor/contract_cp_Group__ctor',
               'Parameters__group__Group/contract_cp_Parameters__group__Group',
               'Group__parameter__Parameter/contract_cp_Group__parameter__Parameter',
               'c3d__updateHeader/contract_cp_c3d__updateHeader'],
      unwind=4, timeout=600, object_bits=12, level='PB', bound='group list of at most 4096 groups (the format allows 127)',
      assumes=['Parameters::groupIdx reports the ghost fact "a group of that name exists at index i" (first match: unit '
               'Parameters_groupIdx); Group::parameter(p) refuses an untyped parameter before any change and otherwise stores it '
               '(unit Group_parameter); Parameters::group(Group) appends a group that is not there yet (bounded unit B_Parameters_group_merge); '
               'updateHeader does not throw on a valid object (unit c3d_updateHeader)']),
    U('B_c3d_point_frames', 'contracts/bounded_columns.c', 'h_B_c3d_point_frames', [], ['C06', 'C07', 'C10', 'C05', 'C08', 'C13'], mode='bmc',
      stubs={'Parameters__group__str': 'stubc_group', 'Group__parameter__str': 'stubc_parameter',
             'vf_vec_string_ctor_copy': 'stubc_vec_string_copy', 'Points__point__Point_sz': 'stubc_Points_append',
             'c3d__updateParameters': 'stubc_updateParameters'},
      defines=['VF_COLUMN_POINT'], unwind=4, unwindset={'vf_string_ctor_lit.0': 8}, timeout=900, level='B', object_bits=12,
      bound='at most 2 stored frames, 2 argument frames, 2 new points per frame, 2 existing labels, names of at most 1 character',
      props={'memsafe': ['C13'], 'ub': ['C13']},
      assumes=['plain symbolic execution of the real c3d::point(frames); by-name accessors = ghost directory; Points::point(p) (append) '
               'and updateParameters() are recording stubs (their own units: Points_point_append/_alias; updateParameters has none)']),
    U('B_c3d_analog_frames', 'contracts/bounded_columns.c', 'h_B_c3d_analog_frames', [], ['C06', 'C07', 'C10', 'C05', 'C08', 'C13'], mode='bmc',
      stubs={'Parameters__group__str': 'stubc_group', 'Group__parameter__str': 'stubc_parameter',
             'vf_vec_string_ctor_copy': 'stubc_vec_string_copy', 'SubFrame__channel__Channel_sz': 'stubc_SubFrame_append',
             'c3d__updateParameters': 'stubc_updateParameters'},
      defines=['VF_COLUMN_ANALOG'], unwind=4, unwindset={'vf_string_ctor_lit.0': 8}, timeout=900, level='B', object_bits=12,
      bound='at most 2 stored frames, 2 argument frames, 2 sub-frames, 2 new channels per sub-frame, 2 existing labels, names of at most 1 character',
      props={'memsafe': ['C13'], 'ub': ['C13']},
      assumes=['plain symbolic execution of the real c3d::analog(frames); by-name accessors = ghost directory; SubFrame::channel(c) '
               '(append) and updateParameters() are recording stubs; every stored frame carries the header\'s sub-frame count (C05)']),
    U('B_Parameters_group_merge', 'contracts/bounded_group_merge.c', 'h_B_Parameters_group_merge', [], ['C09', 'C13'], mode='bmc',
      stubs={'vf_vec_Group_push_back': 'stubg_push_back', 'Group__parameter__Parameter': 'stubg_Group_parameter'},
      unwind=5, timeout=600, level='B', object_bits=12,
      bound='at most 3 groups, 2 parameters in the inserted group, names of at most 1 character',
      props={'memsafe': ['C13'], 'ub': ['C13']},
      assumes=['plain symbolic execution of the real Parameters::group(const Group&); push_back and Group::parameter(p) are recording '
               'stubs (unit Group_parameter); group names are unique (VALID_C3D)']),
    U('B_Group_parameter', 'contracts/bounded_group_parameter.c', 'h_B_Group_parameter', [], ['C09', 'C10', 'C13'], mode='bmc',
      stubs={'vf_vec_Parameter_push_back': 'stubgp_push_back', 'Parameter__assign': 'stubgp_assign'},
      unwind=5, timeout=600, level='B', object_bits=12,
      bound='at most 3 parameters in the group, names of at most 1 character',
      props={'memsafe': ['C13'], 'ub': ['C13']},
      assumes=['plain symbolic execution of the real Group::parameter(const Parameter&); push_back and Parameter::operator= are '
               'recording stubs (the store itself); the unbounded proof of the same clauses is the thorough-tier unit Group_parameter']),
    U('B_Parameter_read', 'contracts/bounded_parameter_read.c', 'h_B_Parameter_read', [], ['C02', 'C16', 'C13', 'C01'], mode='bmc',
      stubs={'c3d__readUint': 'stubv_readUint', 'c3d__readInt': 'stubv_readInt', 'c3d__readString': 'stubv_readString',
             'vf_string_assign': 'stubv_string_assign', 'c3d__readParam__uint_vsz_vint_sz': 'stubp_readParam_int',
             'c3d__readParam__vsz_vfloat_sz': 'stubp_readParam_float', 'c3d__readParam__vsz_vstr': 'stubp_readParam_string'},
      unwind=6, timeout=900, level='B', object_bits=12,
      bound='image of 24 arbitrary bytes, |name length| <= 2, at most 3 dimensions, strings of at most 4 characters (larger requests cut)',
      props={'memsafe': ['C13', 'C16'], 'ub': ['C13']},
      assumes=['plain symbolic execution of the real Parameter::read; read helpers = value stubs (their proved contracts); the matrix '
               'readers c3d::readParam are recording stubs that state their precondition (non-empty dimension list)']),
    U('B_readParam_int_1d', 'contracts/bounded_matrix_read.c', 'h_B_readParam', [], ['C02', 'C12', 'C16', 'C13'], mode='bmc',
      stubs={'c3d__readInt': 'stubv_readInt'}, defines=['VF_ND=1'], unwind=5, timeout=900, level='B', object_bits=12,
      bound='1 dimension of at most 3, 16-bit elements, image of at most 6 bytes',
      props={'memsafe': ['C13', 'C16'], 'ub': ['C13']},
      assumes=['plain symbolic execution of the real recursive c3d::readParam (int form); readInt = value stub (proved contract)']),
    U('B_readParam_int_2d', 'contracts/bounded_matrix_read.c', 'h_B_readParam', [], ['C02', 'C12', 'C16', 'C13'], mode='bmc',
      stubs={'c3d__readInt': 'stubv_readInt'}, defines=['VF_ND=2'], unwind=5, unwindset={'vf_vec_int_push_back.0': 11}, timeout=900, level='B', object_bits=12,
      bound='2 dimensions of at most 3 each, 16-bit elements, image of at most 6 bytes',
      props={'memsafe': ['C13', 'C16'], 'ub': ['C13']},
      assumes=['plain symbolic execution of the real recursive c3d::readParam (int form); readInt = value stub (proved contract)']),
    U('B_readParam_float_2d', 'contracts/bounded_matrix_read.c', 'h_B_readParam', [], ['C02', 'C12', 'C16', 'C13'], mode='bmc',
      stubs={'c3d__readFloat': 'stubv_readFloat'}, defines=['VF_MATRIX_FLOAT', 'VF_IMG=12', 'VF_ND=2'], unwind=5, unwindset={'vf_vec_float_push_back.0': 11}, timeout=900, level='B', object_bits=12,
      bound='2 dimensions of at most 3 each, float elements, image of at most 12 bytes',
      props={'memsafe': ['C13', 'C16'], 'ub': ['C13']},
      assumes=['plain symbolic execution of the real recursive c3d::readParam (float form); readFloat = value stub (proved contract)']),
    U('B_Data_write', 'contracts/bounded_data_write.c', 'h_B_Data_write', [], ['C01', 'C03', 'C12', 'C14', 'C13'], mode='bmc',
      unwind=5, unwindset={'vf_stream_write.0': 6}, timeout=5400, level='B', object_bits=12, tier='thorough',
      bound='at most 2 frames x 2 points x 2 sub-frames x 2 channels (uniform shape), start offset <= 8',
      props={'memsafe': ['C13'], 'ub': ['C13']},
      assumes=['plain symbolic execution of the real writer stack Data::write ... Point::write / Channel::write over the stream model']),
    U('Point_write_at', 'contracts/datawriters.c', 'h_Point_write_at', ['Point__write/contract_at_Point__write'],
      ['C01', 'C03', 'C12', 'C14', 'C13', 'C18'], replace=['vf_stream_write/contract_vf_stream_write'], unwind=6, timeout=900, level='PB', object_bits=12,
      bound='output buffer of 4096 bytes, any position in it'),
    U('Points_write', 'contracts/datawriters.c', 'h_Points_write', ['Points__write/contract_Points__write'],
      ['C01', 'C03', 'C12', 'C14', 'C13', 'C18'], replace=['Point__write/contract_at_Point__write'], loops=True,
      pre_unwind={'h_Points_write.0': 33}, unwind=4, timeout=1800, level='PB', object_bits=12, defines=['VF_DW_CAP=512'],
      bound='at most 32 points per frame (output buffer of 512 bytes), any number below that by loop contract'),
    U('Channel_write_at', 'contracts/datawriters.c', 'h_Channel_write_at', ['Channel__write/contract_at_Channel__write'],
      ['C01', 'C03', 'C12', 'C14', 'C13', 'C18'], replace=['vf_stream_write/contract_vf_stream_write'], unwind=6, timeout=900, level='PB',
      object_bits=12, bound='output buffer of 4096 bytes, any position in it'),
    U('SubFrame_write', 'contracts/datawriters.c', 'h_SubFrame_write', ['SubFrame__write/contract_SubFrame__write'],
      ['C01', 'C03', 'C12', 'C14', 'C13', 'C18'], replace=['Channel__write/contract_at_Channel__write'], loops=True, defines=['VF_DW_CAP=512'],
      unwind=4, timeout=1800, level='PB', object_bits=12,
      bound='at most 128 channels per sub-frame (output buffer of 512 bytes), any number below that by loop contract'),
    U('B_Parameter_write_int_1d', 'contracts/bounded_parameter_write.c', 'h_B_Parameter_write_int', [], ['C01', 'C03', 'C04', 'C12', 'C14', 'C13'], mode='bmc', defines=['VF_ND=1'],
      unwind=6, unwindset={'vf_stream_write.0': 6}, timeout=1200, level='B', object_bits=12,
      bound='INT parameter, name 1..2 characters, description <= 2, 1 dimension of at most 2, start offset <= 1',
      props={'memsafe': ['C13'], 'ub': ['C13']},
      assumes=['plain symbolic execution of the real Parameter::write / writeImbricatedParameter / toUpper over the stream model; values and '
               'shape are consistent (what Parameter::set guarantees: units Parameter_set_int, isDimensionConsistent)']),
    U('B_Parameter_write_int_2d', 'contracts/bounded_parameter_write.c', 'h_B_Parameter_write_int', [], ['C01', 'C03', 'C04', 'C12', 'C14', 'C13'], mode='bmc', defines=['VF_ND=2'],
      unwind=6, unwindset={'vf_stream_write.0': 6}, timeout=1200, level='B', object_bits=12,
      bound='INT parameter, name 1..2 characters, description <= 2, 2 dimensions of at most 2 each, start offset <= 1',
      props={'memsafe': ['C13'], 'ub': ['C13']},
      assumes=['plain symbolic execution of the real Parameter::write / writeImbricatedParameter / toUpper over the stream model; values and '
               'shape are consistent (what Parameter::set guarantees: units Parameter_set_int, isDimensionConsistent)']),
    U('B_Parameter_write_byte_1d', 'contracts/bounded_parameter_write.c', 'h_B_Parameter_write_int', [], ['C04', 'C03', 'C12', 'C14', 'C13'], mode='bmc', defines=['VF_ND=1', 'VF_W=1'],
      unwind=6, unwindset={'vf_stream_write.0': 6}, timeout=1200, level='B', object_bits=12,
      bound='BYTE parameter (type code 1, as a loaded file can hold), name 1..2 characters, description <= 2, 1 dimension of at most 2, start offset <= 1',
      props={'memsafe': ['C13'], 'ub': ['C13']},
      assumes=['plain symbolic execution of the real Parameter::write / writeImbricatedParameter / toUpper over the stream model; values and '
               'shape are consistent (what the reader produces for a BYTE record: unit B_Parameter_read)']),
    U('B_Parameter_write_float_1d', 'contracts/bounded_parameter_write.c', 'h_B_Parameter_write_float', [], ['C01', 'C03', 'C04', 'C12', 'C14', 'C13'], mode='bmc', defines=['VF_ND=1'],
      unwind=6, unwindset={'vf_stream_write.0': 18}, timeout=1200, level='B', object_bits=12,
      bound='FLOAT parameter, name 1..2 characters, description <= 2, 1 dimension(s) of at most 2, start offset <= 1',
      props={'memsafe': ['C13'], 'ub': ['C13']},
      assumes=['plain symbolic execution of the real Parameter::write / writeImbricatedParameter / toUpper over the stream model; values and '
               'shape are consistent (what Parameter::set guarantees: units Parameter_set_float, isDimensionConsistent)']),
    U('B_Parameter_write_float_2d', 'contracts/bounded_parameter_write.c', 'h_B_Parameter_write_float', [], ['C01', 'C03', 'C04', 'C12', 'C14', 'C13'], mode='bmc', defines=['VF_ND=2'],
      unwind=6, unwindset={'vf_stream_write.0': 18}, timeout=1200, level='B', object_bits=12,
      bound='FLOAT parameter, name 1..2 characters, description <= 2, 2 dimension(s) of at most 2, start offset <= 1',
      props={'memsafe': ['C13'], 'ub': ['C13']},
      assumes=['plain symbolic execution of the real Parameter::write / writeImbricatedParameter / toUpper over the stream model; values and '
               'shape are consistent (what Parameter::set guarantees: units Parameter_set_float, isDimensionConsistent)']),
    U('B_Parameter_write_char1d_bmc', 'contracts/bounded_parameter_write.c', 'h_B_Parameter_write_char1d', [], ['C03', 'C04', 'C14', 'C13'], mode='bmc',
      unwind=6, unwindset={'vf_stream_write.0': 6}, timeout=1200, level='B', object_bits=12,
      bound='one-dimensional CHAR parameter of declared width 1..4, text no longer than the width, name 1..2 characters, description <= 2',
      props={'memsafe': ['C13', 'C14'], 'ub': ['C13']},
      assumes=['plain symbolic execution of the real Parameter::write over the stream model (quick-tier counterpart of the DFCC unit '
               'B_Parameter_write_char1d)']),
    U('B_Parameter_roundtrip_scalar', 'contracts/bounded_parameter_write.c', 'h_B_Parameter_roundtrip', [], ['C01', 'C04', 'C12', 'C03', 'C13'], mode='bmc',
      defines=['VF_ROUNDTRIP', 'VF_ND=1', 'VF_RT_L=1', 'VF_RT_N=1', 'VF_RT_LOCKED=0', 'VF_RT_D=0'],
      stubs={'c3d__readUint': 'stubv_readUint', 'c3d__readInt': 'stubv_readInt', 'c3d__readString': 'stubv_readString',
             'vf_string_assign': 'stubv_string_assign', 'c3d__readParam__vsz_vfloat_sz': 'stubr_float_not_reached',
             'c3d__readParam__vsz_vstr': 'stubr_string_not_reached'},
      unwind=6, unwindset={'vf_stream_write.0': 6}, timeout=1200, level='B', object_bits=12,
      bound='INT parameter (16-bit values), unlocked, name of 1 character, no description, a scalar; contents symbolic',
      props={'memsafe': ['C13'], 'ub': ['C13']},
      assumes=['plain symbolic execution of the real Parameter::write, then of the real Parameter::read + c3d::readParam on the bytes '
               'written; read helpers = value stubs (their proved contracts)']),
    U('B_readParam_string', 'contracts/bounded_matrix_read.c', 'h_B_readParam_string', [], ['C02', 'C11', 'C16', 'C13'], mode='bmc',
      stubs={'c3d__readString': 'stubv_readString'}, defines=['VF_MATRIX_STRING', 'VF_ND=2', 'VF_SW=2', 'VF_SR=2', 'VF_IMG=4'], unwind=5,
      unwindset={'vf_vec_string_push_back.0': 8, 'vf_string_ctor_lit.0': 3, 'h_B_readParam_string.0': 8}, timeout=1200, level='B', object_bits=12,
      bound='2 rows of 2 characters (symbolic content), image truncated anywhere in 0..4 bytes, no NUL bytes',
      props={'memsafe': ['C13', 'C16'], 'ub': ['C13']},
      assumes=['plain symbolic execution of the real c3d::readParam (string form), _readMatrix, _dispatchMatrix, removeTrailingSpaces; '
               'readString = value stub (proved contract)']),
    U('B_updateParameters', 'contracts/bounded_update_parameters.c', 'h_B_updateParameters', [], ['C05', 'C10', 'C13'], mode='bmc',
      stubs={'Parameters__groupIdx': 'stubq_groupIdx', 'Parameters__group_nonConst__sz': 'stubq_group_at', 'Parameters__group__str': 'stubq_group_named',
             'Group__parameterIdx': 'stubq_parameterIdx', 'Group__parameter__str': 'stubq_param_named',
             'Group__parameter_nonConst__str': 'stubq_param_named_nc', 'Group__parameter__sz': 'stubq_param_at',
             'Group__parameter_nonConst__sz': 'stubq_param_at_nc', 'Parameter__set__sz': 'stubq_set_sz',
             'Parameter__set__vstr_vsz': 'stubq_set_vstr', 'Parameter__set__vint_vsz': 'stubq_set_vint',
             'Parameter__set__vfloat_vsz': 'stubq_set_vfloat', 'c3d__updateHeader': 'stubq_updateHeader'},
      unwind=9, unwindset={'vf_string_ctor_lit.0': 14}, timeout=5400, level='B', object_bits=13, tier='thorough',
      bound='at most 1 stored frame, 2 points, 1 sub-frame of 2 channels, 2 existing labels, 1 pending name of each kind, names of at most 1 character',
      props={'memsafe': ['C13'], 'ub': ['C13']},
      assumes=['plain symbolic execution of the real updateParameters; by-name / by-index accessors = ghost directory (VALID_C3D); the '
               'Parameter::set overloads and updateHeader are recording stubs (their own units); pre-state satisfies C05 for the '
               'ANALOG lists and channels are never removed']),
    U('model_stream_write', 'contracts/model_self.c', 'h_model_stream_write', ['vf_stream_write/contract_vf_stream_write'],
      ['C14', 'C03', 'C13', 'C18'], loops=True, model_loops=True, unwind=4, timeout=900, level='PB', object_bits=12,
      bound='device of at most 8192 bytes, at most 4096 bytes per write'),
    U('model_stream_read', 'contracts/model_self.c', 'h_model_stream_read', ['vf_stream_read/contract_vf_stream_read'],
      ['C02', 'C16', 'C13', 'C18'], loops=True, model_loops=True, unwind=4, timeout=900, level='PB', object_bits=12,
      bound='file image of at most 8192 bytes, at most 4096 bytes per read'),
    U('model_string_ctor_copy', 'contracts/model_self.c', 'h_model_string_ctor_copy', ['vf_string_ctor_copy/contract_vf_string_ctor_copy'],
      ['C08', 'C13', 'C18'], loops=True, model_loops=True, unwind=4, timeout=900, level='PB', object_bits=12,
      bound='strings of at most 4096 characters'),
    U('Header_roundtrip', 'contracts/bounded_header_roundtrip.c', 'h_Header_roundtrip', [], ['C01', 'C04', 'C05', 'C12', 'C13'], mode='bmc',
      stubs={'c3d__readUint': 'stubv_readUint', 'c3d__readInt': 'stubv_readInt', 'c3d__readFloat': 'stubv_readFloat',
             'c3d__readString': 'stubv_readString', 'vf_string_assign': 'stubv_string_assign'},
      unwind=20, unwindset={'Header__write.0': 137, 'Header__write.5': 24, 'vf_stream_write.0': 6}, timeout=1800, level='PB', object_bits=11,
      bound='complete unwinding (both functions have only constant-bound loops; unwinding assertions on); header words within their '
            '16-bit cells; header not preceded by zero bytes',
      props={'memsafe': ['C13'], 'ub': ['C13']},
      assumes=['plain symbolic execution of the real Header::write, then of the real Header::read on the bytes written; read helpers = '
               'value stubs (their proved contracts)']),
    U('model_string_ctor_cstr', 'contracts/model_self.c', 'h_model_string_ctor_cstr', ['vf_string_ctor_cstr/contract_vf_string_ctor_cstr'],
      ['C02', 'C16', 'C13', 'C18'], loops=True, model_loops=True, unwind=4, timeout=900, level='PB', object_bits=12,
      bound='C strings of at most 4096 characters'),
] + [
    U('B_model_vec_Frame_' + f, 'contracts/model_self_vec.c', 'h_B_model_vec_Frame_' + f, ['vf_vec_Frame_%s/contract_vf_vec_Frame_%s' % (f, f)],
      ['C06', 'C08', 'C13'], unwind=6, timeout=900, level='B', object_bits=12,
      bound='at most 3 stored frames and at most 3 frames after the call (the vector model has no loop contracts: loops unwound, unwinding assertions on)',
      assumes=['the body is the C model of std::vector<Frame> (model/vf_std.h, macro VF_VEC_DEFINE_O, element hooks = the lowered Frame '
               'constructors), not libstdc++: this unit checks the contract the Data::frame units rely on against that body'])
    for f in ('push_back', 'resize', 'resize_fill')] + [
] + [
    U('B_' + n, 'contracts/bounded_lookups.c', 'h_B_' + n, [], ['C11', 'C13'], mode='bmc', unwind=5, timeout=600, level='B', object_bits=12,
      bound='at most 3 elements, names of at most 2 characters',
      props={'memsafe': ['C13'], 'ub': ['C13']},
      assumes=['plain symbolic execution of the real look-up with the positional accessor, the name getter and the string comparison '
               'of the model inlined; the unbounded proof of the same clauses is the thorough-tier unit ' + n])
    for n in ('Points_pointIdx', 'SubFrame_channelIdx', 'Group_parameterIdx', 'Parameters_groupIdx')] + [
    U('AST_static_storage', 'extract/lower.py', '-', [], ['C18'], mode='ast',
      assumes=['static and namespace-scope variable definitions as clang reports them for the 12 translation units']),
    U('B_Points_write', 'contracts/bounded_data_write.c', 'h_B_Points_write', [], ['C01', 'C03', 'C12', 'C14', 'C13'], mode='bmc',
      unwind=9, unwindset={'vf_stream_write.0': 34}, timeout=900, level='B', object_bits=12,
      bound='at most 2 points, start offset <= 8; loop bounds sized for one write per float, per point or per frame',
      props={'memsafe': ['C13'], 'ub': ['C13']},
      assumes=['plain symbolic execution of the real Points::write / Point::write over the stream model']),
    U('Parameters_default_ctor', 'contracts/default_parameters.c', 'h_Parameters_default_ctor', [], ['C05', 'C09', 'C13'], mode='bmc',
      stubs={'Group__ctor': 'stubd_Group_ctor', 'Parameter__ctor': 'stubd_Parameter_ctor', 'Parameter__set__int': 'stubd_set_int',
             'Parameter__set__double': 'stubd_set_double', 'Parameter__set__vstr_vsz': 'stubd_set_vstr', 'Parameter__set__vint_vsz': 'stubd_set_vint',
             'Parameter__set__vfloat_vsz': 'stubd_set_vfloat', 'Parameter__lock': 'stubd_lock',
             'Group__parameter__Parameter': 'stubd_Group_parameter', 'Parameters__group__Group': 'stubd_Parameters_group'},
      unwind=34, timeout=900, level='PB', object_bits=12,
      bound='complete symbolic execution of the straight-line constructor (recording capacity 32 parameters)',
      props={'memsafe': ['C13'], 'ub': ['C13']},
      assumes=['plain symbolic execution of the real Parameters::Parameters(); constructors, setters, lock, Group::parameter(p) and '
               'Parameters::group(g) are recording stubs (their own units: Parameter_set_*, Group_parameter, B_Parameters_group_merge)']),
    U('c3d_lockGroup', 'contracts/lockgroup.c', 'h_c3d_lockGroup', ['c3d__lockGroup/contract_c3d__lockGroup'], ['C09', 'C10', 'C13', 'C18'],
      replace=['Parameters__group_nonConst__str/contract_lg_Parameters__group_nonConst__str'], unwind=3, timeout=300,
      assumes=['the by-name accessor returns the group of that name or throws invalid_argument (first match: unit Parameters_groupIdx)']),
    U('c3d_unlockGroup', 'contracts/lockgroup.c', 'h_c3d_unlockGroup', ['c3d__unlockGroup/contract_c3d__unlockGroup'], ['C09', 'C10', 'C13', 'C18'],
      replace=['Parameters__group_nonConst__str/contract_lg_Parameters__group_nonConst__str'], unwind=3, timeout=300,
      assumes=['the by-name accessor returns the group of that name or throws invalid_argument (first match: unit Parameters_groupIdx)']),
    U('B_c3d_point_name', 'contracts/bounded_point_name.c', 'h_B_c3d_point_name', [], ['C06', 'C05', 'C13'], mode='bmc',
      stubs={'Point__ctor__str': 'stubn_Point_ctor', 'Point__name__str': 'stubn_Point_name', 'Points__ctor__void': 'stubn_Points_ctor',
             'Points__point__Point_sz': 'stubn_Points_append', 'Frame__ctor': 'stubn_Frame_ctor', 'Frame__add__Points': 'stubn_Frame_add',
             'vf_vec_Frame_push_back': 'stubn_push_back', 'c3d__point__vFrame': 'stubn_column', 'c3d__updateParameters': 'stubn_update'},
      unwind=5, timeout=600, level='B', object_bits=12, bound='at most 3 stored frames, name of at most 2 characters',
      props={'memsafe': ['C13'], 'ub': ['C13']},
      assumes=['plain symbolic execution of the real c3d::point(name); constructors, Points::point(p), Frame::add, push_back, the column '
               'adder and updateParameters are recording stubs (their own units)']),
    U('B_c3d_analog_name', 'contracts/bounded_point_name.c', 'h_B_c3d_analog_name', [], ['C06', 'C05', 'C13'], mode='bmc',
      stubs={'Channel__ctor__str': 'stuba_Channel_ctor', 'Channel__name__str': 'stuba_Channel_name', 'Channel__data__float': 'stuba_Channel_data',
             'SubFrame__ctor__void': 'stuba_SubFrame_ctor', 'SubFrame__channel__Channel_sz': 'stuba_SubFrame_append',
             'Frame__ctor': 'stubn_Frame_ctor', 'Frame__analogs_nonConst': 'stuba_Frame_analogs',
             'Analogs__subframe__SubFrame_sz': 'stuba_Analogs_append', 'vf_vec_Frame_push_back': 'stuba_push_back',
             'c3d__analog__vFrame': 'stubn_column', 'c3d__updateParameters': 'stuba_update'},
      unwind=5, timeout=600, level='B', object_bits=12, bound='at most 3 stored frames, 3 sub-frames, name of at most 2 characters',
      props={'memsafe': ['C13'], 'ub': ['C13']},
      assumes=['plain symbolic execution of the real c3d::analog(name); constructors, setters, SubFrame::channel(c), Analogs::subframe(s), '
               'push_back, the column adder and updateParameters are recording stubs (their own units)']),
    U('Parameters_write', WR, 'h_Parameters_write', ['Parameters__write/contract_Parameters__write'],
      ['C01', 'C03', 'C13', 'C14', 'C10'], replace=['Group__write/contract_abs_Group__write'], unwind=5, loops=True, timeout=900,
      pre_unwind={'vf_stream_write.0': 5, 'Parameters__write.0': 3},
      level='PB', bound='records ending within 4 blocks of the header: every residue of the section length modulo 512 is covered symbolically',
      assumes=['the group records are abstracted by a contract of Group::write: at least 5 bytes written after the current '
               'position, earlier bytes untouched (assumed here)']),
    U('Parameters_write_padding', WR, 'h_Z_Parameters_write', ['Parameters__write/contract_Z_Parameters__write'],
      ['C01', 'C03', 'C04', 'C14'], replace=['Group__write/contract_abs2_Group__write'], unwind=5, loops=True, timeout=900,
      pre_unwind={'vf_stream_write.0': 5, 'Parameters__write.0': 3},
      level='PB', bound='records ending within 4 blocks of the header (every residue modulo 512)', props={'memsafe': [], 'ub': [], 'frame': []}),
    U('B_Parameter_set_string', PA, 'h_Parameter_set_string', ['Parameter__set__vstr_vsz/contract_Parameter__set__vstr_vsz'],
      ['C09', 'C10', 'C13'],
      replace=['Parameter__isDimensionConsistent/contract_rec_Parameter__isDimensionConsistent',
               'vf_vec_string_assign/contract_vf_vec_string_assign'],
      unwind=9, timeout=300, level='B', bound='at most 4 strings, at most 6 explicit dimensions'),
    U('Group_read', RD, 'h_Group_read', ['Group__read/contract_Group__read'], ['C01', 'C02', 'C04', 'C13', 'C16', 'C17', 'C10', 'C18'],
      replace=['c3d__readString/contract_c3d__readString', 'c3d__readUint/contract_c3d__readUint', 'c3d__readInt/contract_c3d__readInt',
               'vf_string_assign/contract_vf_string_assign'], unwind=5, timeout=300, track_alloc=True,
      props={'memsafe': ['C13', 'C16']}),
    U('B_removeTrailingSpaces', ST, 'h_removeTrailingSpaces', ['ezc3d__removeTrailingSpaces/contract_ezc3d__removeTrailingSpaces'],
      ['C11', 'C02', 'C13'], unwind=11, timeout=300, level='B', bound='strings of at most 8 characters'),
    U('readFile', RD, 'h_readFile', ['c3d__readFile/contract_c3d__readFile'], _RD_SERVES,
      replace=['vf_stream_read/contract_vf_stream_read'], unwind=5, timeout=300,
      props={'memsafe': ['C13', 'C16']}),
    U('readUint', RD, 'h_readUint', ['c3d__readUint/contract_c3d__readUint'], _RD_SERVES + ['C17'],
      replace=['c3d__readFile/contract_c3d__readFile', 'c3d__hex2uint/contract_c3d__hex2uint'], unwind=5, timeout=300,
      track_alloc=True, props={'memsafe': ['C13', 'C16']}),
    U('readInt', RD, 'h_readInt', ['c3d__readInt/contract_c3d__readInt'], _RD_SERVES + ['C17'],
      replace=['c3d__readFile/contract_c3d__readFile', 'c3d__hex2int/contract_c3d__hex2int'], unwind=5, timeout=300,
      track_alloc=True, props={'memsafe': ['C13', 'C16']}),
    U('readFloat', RD, 'h_readFloat', ['c3d__readFloat/contract_c3d__readFloat'], _RD_SERVES + ['C01'],
      replace=['c3d__readFile/contract_c3d__readFile'], unwind=5, timeout=300, props={'memsafe': ['C13', 'C16']}),
    U('readString', RD, 'h_readString', ['c3d__readString/contract_c3d__readString'], _RD_SERVES + ['C04', 'C17'],
      replace=['c3d__readFile/contract_c3d__readFile', 'vf_string_ctor_cstr/contract_vf_string_ctor_cstr',
               'vf_string_ctor_copy/contract_vf_string_ctor_copy'], unwind=5, timeout=300,
      track_alloc=True, props={'memsafe': ['C13', 'C16']}),
] + [U('isDimensionConsistent_%d' % k, PA, 'h_isDimensionConsistent',
         ['Parameter__isDimensionConsistent/contract_Parameter__isDimensionConsistent'], ['C09', 'C10', 'C13', 'C18', 'C19'],
         unwind=9, timeout=1200, level='PB', bound='at most 7 dimensions of at most 255 entries (format capacity); one query per '
         'dimension count 0..7', defines=['VF_NDIMS=%d' % k], sat='kissat') for k in range(8)] + [
    U('Parameter_set_int', PA, 'h_Parameter_set_int', ['Parameter__set__vint_vsz/contract_Parameter__set__vint_vsz'],
      ['C09', 'C10', 'C13', 'C18'],
      replace=['Parameter__isDimensionConsistent/contract_rec_Parameter__isDimensionConsistent', 'vf_vec_int_assign/contract_vf_vec_int_assign'],
      unwind=9, timeout=300, level='PB', bound='at most 7 dimensions of at most 255 entries (format capacity)'),
    U('Parameter_set_float', PA, 'h_Parameter_set_float', ['Parameter__set__vfloat_vsz/contract_Parameter__set__vfloat_vsz'],
      ['C09', 'C10', 'C13', 'C18'],
      replace=['Parameter__isDimensionConsistent/contract_rec_Parameter__isDimensionConsistent', 'vf_vec_float_assign/contract_vf_vec_float_assign'],
      unwind=9, timeout=300, level='PB', bound='at most 7 dimensions of at most 255 entries (format capacity)'),
    U('c3d_write', IO, 'h_c3d_write', ['c3d__write/contract_c3d__write'], ['C15', 'C13', 'C14', 'C18', 'C03'],
      replace=['Header__write/contract_io_Header__write', 'Parameters__write/contract_io_Parameters__write',
               'Data__write/contract_io_Data__write'],
      unwind=8, timeout=300, track_alloc=True,
      assumes=['Parameters::write and Data::write only touch the stream and record every failure in the stream state '
               '(frame-only contracts, assumed)']),
    U('c3d_dtor', IO, 'h_c3d_dtor', ['c3d__dtor/contract_c3d__dtor'], ['C13', 'C10', 'C18'], unwind=5, timeout=120,
      track_alloc=True),
    U('c3d_ctor', IO, 'h_c3d_ctor', ['c3d__ctor__void/contract_c3d__ctor__void'], ['C13', 'C05', 'C10'],
      replace=['Header__ctor__void/contract_any_Header__ctor__void', 'Parameters__ctor__void/contract_any_Parameters__ctor__void',
               'Data__ctor__void/contract_any_Data__ctor__void'], unwind=5, timeout=120, track_alloc=True),
    U('Header_write', WR, 'h_Header_write', ['Header__write/contract_Header__write'],
      ['C01', 'C03', 'C04', 'C05', 'C12', 'C13', 'C14', 'C17', 'C18', 'C10', 'C02'], unwind=137, timeout=600),
    U('Header_write_limits', WR, 'h_Header_write', ['Header__write/contract_L_Header__write'],
      ['C17'], unwind=137, timeout=600, props={'memsafe': [], 'ub': [], 'frame': []}),
] + [U('Data_frame_' + c, DA, 'h_Data_frame_' + c, ['Data__frame__Frame_sz/contract_Data__frame__Frame_sz'],
         ['C06', 'C08', 'C10', 'C13', 'C18'],
         replace=['vf_vec_Frame_push_back/contract_vf_vec_Frame_push_back', 'vf_vec_Frame_resize/contract_vf_vec_Frame_resize',
                  'vf_vec_Frame_resize_fill/contract_vf_vec_Frame_resize_fill', 'Frame__add__Frame/contract_own_Frame__add__Frame',
                  'Frame__ctor/contract_Frame__ctor_fresh'],
         unwind=5, timeout=600, level='PB', bound='at most 100000 stored frames (the format holds 65535)',
         assumes=['contracts of vf_vec_Frame_push_back / vf_vec_Frame_resize (std::vector<Frame> growth: handles of '
                  'existing frames kept, new frames default-constructed) are assumed'])
     for c in ('append', 'replace', 'extend')] + [
    U('Data_frame_alias', DA, 'h_Data_frame_alias', ['Data__frame__Frame_sz/contract_alias_Data__frame__Frame_sz'],
      ['C13', 'C06', 'C10'],
      replace=['vf_vec_Frame_push_back/contract_vf_vec_Frame_push_back', 'vf_vec_Frame_resize/contract_vf_vec_Frame_resize',
               'vf_vec_Frame_resize_fill/contract_vf_vec_Frame_resize_fill', 'Frame__add__Frame/contract_shallow_Frame__add__Frame',
               'Frame__ctor/contract_Frame__ctor_fresh'],
      unwind=5, timeout=900, level='PB', bound='at most 100000 stored frames',
      assumes=['contracts of the std::vector<Frame> growth functions are assumed']),
    U('Frame_add_Frame_points', FR, 'h_P_Frame_add_Frame', ['Frame__add__Frame/contract_P_Frame__add__Frame'],
      ['C01', 'C06', 'C08', 'C10', 'C13', 'C18'],
      replace=['Frame__add__Points/contract_Frame__add__Points', 'Frame__add__Analogs/contract_frameonly_Frame__add__Analogs'],
      unwind=5, timeout=300),
    U('Frame_add_Frame_analogs', FR, 'h_A_Frame_add_Frame', ['Frame__add__Frame/contract_A_Frame__add__Frame'],
      ['C01', 'C06', 'C08', 'C10', 'C13', 'C18'],
      replace=['Frame__add__Points/contract_frameonly_Frame__add__Points', 'Frame__add__Analogs/contract_Frame__add__Analogs'],
      unwind=5, timeout=300),
    U('Frame_ctor', FR, 'h_Frame_ctor', ['Frame__ctor/contract_Frame__ctor'],
      ['C06', 'C08', 'C10', 'C13', 'C18'], unwind=5, timeout=120),
    U('Frame_add_Points', FR, 'h_Frame_add_Points', ['Frame__add__Points/contract_Frame__add__Points'],
      ['C01', 'C06', 'C08', 'C10', 'C13', 'C18'], replace=['vf_vec_Point_ctor_copy/contract_vf_vec_Point_ctor_copy'],
      unwind=5, timeout=300, assumes=['contract of vf_vec_Point_ctor_copy (element-wise Point copy) is assumed, not '
                                      'verified against the model body']),
    U('Frame_add_Analogs', FR, 'h_Frame_add_Analogs', ['Frame__add__Analogs/contract_Frame__add__Analogs'],
      ['C01', 'C06', 'C08', 'C10', 'C13', 'C18'], replace=['vf_vec_SubFrame_ctor_copy/contract_vf_vec_SubFrame_ctor_copy'],
      unwind=5, timeout=300, assumes=['contract of vf_vec_SubFrame_ctor_copy (element-wise SubFrame copy) is assumed, '
                                      'not verified against the model body']),
    U('Point_copy', CC, 'h_Point_copy', ['Point__ctor__Point/contract_Point__ctor__Point'],
      ['C01', 'C06', 'C08', 'C10', 'C13', 'C18'], replace=['vf_string_ctor_copy/contract_vf_string_ctor_copy'],
      unwind=5, timeout=120),
    U('Channel_copy', CC, 'h_Channel_copy', ['Channel__ctor__Channel/contract_Channel__ctor__Channel'],
      ['C01', 'C06', 'C08', 'C10', 'C13', 'C18'], replace=['vf_string_ctor_copy/contract_vf_string_ctor_copy'],
      unwind=5, timeout=120),
    U('hex2uint', K, 'h_hex2uint', ['c3d__hex2uint/contract_c3d__hex2uint'],
      ['C02', 'C12', 'C13', 'C18', 'C19'], unwind=6, timeout=120),
    U('hex2int', K, 'h_hex2int', ['c3d__hex2int/contract_c3d__hex2int'],
      ['C02', 'C12', 'C13', 'C17', 'C18', 'C19'], replace=['c3d__hex2uint/contract_c3d__hex2uint'], unwind=6,
      timeout=120),
    U('Header_nbAnalogs', K, 'h_Header_nbAnalogs', ['Header__nbAnalogs__void/contract_Header__nbAnalogs__void'],
      ['C05', 'C13', 'C18', 'C19'], level='PB', bound='header counts <= 65535 (16-bit header words)', sat='cadical'),
    U('Header_setNbAnalogs', K, 'h_Header_setNbAnalogs', ['Header__nbAnalogs__sz/contract_Header__nbAnalogs__sz'],
      ['C05', 'C13', 'C18', 'C19'], level='PB', bound='header counts <= 65535 (16-bit header words)', sat='cadical'),
    U('Header_nbFrames', K, 'h_Header_nbFrames', ['Header__nbFrames/contract_Header__nbFrames'],
      ['C05', 'C02', 'C13', 'C18', 'C19'], level='PB', bound='header counts <= 65535 (16-bit header words)'),
    U('Header_setNbAnalogByFrame', K, 'h_Header_setNbAnalogByFrame',
      ['Header__nbAnalogByFrame__sz/contract_Header__nbAnalogByFrame__sz'],
      ['C05', 'C13', 'C18', 'C19'], level='PB', bound='header counts <= 65535 (16-bit header words)', timeout=120),
    U('B_Header_setNbAnalogByFrame', K, 'h_B_Header_setNbAnalogByFrame',
      ['Header__nbAnalogByFrame__sz/contract_B_Header__nbAnalogByFrame__sz'],
      ['C05'], level='B', bound='sub-frames, samples per frame and new sub-frame count <= 255 (non-linear clause)',
      timeout=240, sat='cadical'),
] + [acc(f) for f in (
    'Data__frame__sz', 'Data__frame_nonConst', 'Points__point__sz', 'Points__point_nonConst__sz',
    'Analogs__subframe__sz', 'Analogs__subframe_nonConst', 'SubFrame__channel__sz', 'SubFrame__channel_nonConst__sz',
    'Parameters__group__sz', 'Parameters__group_nonConst__sz', 'Group__parameter__sz', 'Group__parameter_nonConst__sz',
    'Header__eventsLabel__sz', 'Header__eventsTime__sz', 'Header__eventsDisplay__sz',
    'Parameter__valuesAsByte', 'Parameter__valuesAsInt', 'Parameter__valuesAsFloat', 'Parameter__valuesAsString')
] + [acc(f, ('C09', 'C10', 'C13', 'C18')) for f in ('Parameter__lock', 'Parameter__unlock', 'Group__lock', 'Group__unlock')]
