/* Lowering self-test, C side: runs the *lowered* library (native gcc build of the generated C +
 * the std model bodies) on fixed scenarios and dumps the produced file images.  The C++ side
 * (difftest.cpp) runs the real library on the same scenarios; the driver compares the bytes.   */
#include <stdio.h>
#include <string.h>
#include "vf_std.h"
#include "low.h"

static unsigned char outbuf[8 << 20];

static vf_string S(const char *c) { vf_string s; vf_string_ctor_cstr(&s, c); return s; }

static void dump(const char *path, size_t n)
{
  FILE *f = fopen(path, "wb");
  fwrite(outbuf, 1, n, f);
  fclose(f);
}

static size_t save(struct c3d *c, const char *path)
{
  memset(outbuf, 0xEE, sizeof outbuf);
  vf_file_img = outbuf; vf_file_len = 0; vf_file_cap = sizeof outbuf; vf_file_openable = 1;
  vf_string p = S("out");
  /* the stream object lives inside c3d__write; its final length is the high-water mark: recover it by scanning */
  c3d__write(c, &p);
  if (vf_exc) { fprintf(stderr, "write threw %d\n", vf_exc); exit(3); }
  size_t n = sizeof outbuf;
  while (n > 0 && outbuf[n - 1] == 0xEE) --n;
  /* pad to a multiple of 4: the data section is made of floats, trailing 0xEE cannot be confused (see .cpp side) */
  dump(path, n);
  return n;
}

static void set_rate(struct c3d *c, const char *grp, float v)
{
  vf_string n = S("RATE"), d = S(""), g = S(grp);
  struct Parameter p; Parameter__ctor(&p, &n, &d);
  Parameter__set__float(&p, v);
  c3d__parameter(c, &g, &p);
  if (vf_exc) { fprintf(stderr, "parameter threw %d\n", vf_exc); exit(3); }
}

static void scenario_build(const char *path)
{
  struct c3d c; c3d__ctor__void(&c);
  set_rate(&c, "POINT", 100.0f);
  set_rate(&c, "ANALOG", 1000.0f);
  const char *pn[3] = {"point1", "point2", "Point3"};
  const char *pn2[3] = {"point1", "point2  ", "Point3"};
  for (int i = 0; i < 3; ++i) { vf_string s = S(pn[i]); c3d__point__str(&c, &s); if (vf_exc) exit(4); }
  const char *an[2] = {"analog1", "analog2"};
  for (int i = 0; i < 2; ++i) { vf_string s = S(an[i]); c3d__analog__str(&c, &s); if (vf_exc) exit(4); }
  /* a custom group with several parameter shapes */
  {
    vf_string g = S("MyGroup");
    { vf_string n = S("ints"), d = S("some ints"); struct Parameter p; Parameter__ctor(&p, &n, &d);
      vf_vec_int v; vf_vec_int_ctor(&v); for (int i = 0; i < 6; ++i) vf_vec_int_push_back(&v, i * 1000 - 2500);
      vf_vec_size_t dim; vf_vec_size_t_ctor(&dim); vf_vec_size_t_push_back(&dim, 2); vf_vec_size_t_push_back(&dim, 3);
      Parameter__set__vint_vsz(&p, &v, &dim); Parameter__lock(&p); c3d__parameter(&c, &g, &p); if (vf_exc) exit(5); }
    { vf_string n = S("strs"), d = S(""); struct Parameter p; Parameter__ctor(&p, &n, &d);
      vf_vec_string v; vf_vec_string_ctor(&v); vf_string a = S("alpha"), b = S("be"), e = S("");
      vf_vec_string_push_back(&v, &a); vf_vec_string_push_back(&v, &b); vf_vec_string_push_back(&v, &e);
      vf_vec_size_t dim; vf_vec_size_t_ctor(&dim);
      Parameter__set__vstr_vsz(&p, &v, &dim); c3d__parameter(&c, &g, &p); if (vf_exc) exit(5); }
    { vf_string n = S("one"), d = S("d"); struct Parameter p; Parameter__ctor(&p, &n, &d);
      vf_string a = S("single string"); Parameter__set__str(&p, &a); c3d__parameter(&c, &g, &p); if (vf_exc) exit(5); }
    { vf_string n = S("flt"), d = S(""); struct Parameter p; Parameter__ctor(&p, &n, &d);
      vf_vec_float v; vf_vec_float_ctor(&v); vf_vec_float_push_back(&v, 1.5f); vf_vec_float_push_back(&v, -0.0f);
      vf_vec_size_t dim; vf_vec_size_t_ctor(&dim);
      Parameter__set__vfloat_vsz(&p, &v, &dim); c3d__parameter(&c, &g, &p); if (vf_exc) exit(5); }
    c3d__lockGroup(&c, &g); if (vf_exc) exit(5);
  }
  for (int f = 0; f < 4; ++f) {
    struct Frame fr; Frame__ctor(&fr);
    struct Points pts; Points__ctor__void(&pts);
    for (int i = 0; i < 3; ++i) {
      vf_string s = S(pn2[i]); struct Point pt; Point__ctor__str(&pt, &s); Point__name__str(&pt, &s);
      Point__x__float(&pt, f + 0.1f * i); Point__y__float(&pt, f * 2.0f); Point__z__float(&pt, -1.0f * i);
      Point__residual__float(&pt, 0.25f);
      Points__point__Point_sz(&pts, &pt, SIZE_MAX);
    }
    struct Analogs an_; Analogs__ctor__void(&an_);
    for (int sf = 0; sf < 10; ++sf) {
      struct SubFrame sub; SubFrame__ctor__void(&sub);
      for (int ch = 0; ch < 2; ++ch) {
        vf_string s = S(an[ch]); struct Channel c_; Channel__ctor__str(&c_, &s);
        Channel__data__float(&c_, f * 100.0f + sf * 10.0f + ch);
        SubFrame__channel__Channel_sz(&sub, &c_, SIZE_MAX);
      }
      Analogs__subframe__SubFrame_sz(&an_, &sub, SIZE_MAX);
    }
    Frame__add__Points_Analogs(&fr, &pts, &an_);
    c3d__frame(&c, &fr, f == 3 ? 5 : SIZE_MAX);   /* last one extends the data set */
    if (vf_exc) { fprintf(stderr, "frame threw %d\n", vf_exc); exit(6); }
  }
  save(&c, path);
  c3d__dtor(&c);
}

static unsigned char inbuf[8 << 20];

static void scenario_reload(const char *in, const char *out)
{
  FILE *f = fopen(in, "rb");
  if (!f) { perror(in); exit(7); }
  size_t n = fread(inbuf, 1, sizeof inbuf, f);
  fclose(f);
  vf_file_img = inbuf; vf_file_len = n; vf_file_cap = n; vf_file_openable = 1;
  struct c3d c; vf_string p = S(in);
  c3d__ctor__str(&c, &p);
  if (vf_exc) { fprintf(stderr, "load threw %d\n", vf_exc); exit(8); }
  save(&c, out);
  c3d__dtor(&c);
}

int main(int argc, char **argv)
{
  if (argc < 2) return 2;
  if (!strcmp(argv[1], "build")) scenario_build(argv[2]);
  else if (!strcmp(argv[1], "reload")) scenario_reload(argv[2], argv[3]);
  else return 2;
  return 0;
}
