// Lowering self-test, C++ side: the same scenarios on the real library.
#include "ezc3d.h"
#include "Header.h"
#include "Parameters.h"
#include "Data.h"
#include <cstring>
#include <iostream>

static void set_rate(ezc3d::c3d &c, const char *grp, float v)
{
    ezc3d::ParametersNS::GroupNS::Parameter p("RATE", "");
    p.set(v);
    c.parameter(grp, p);
}

static void scenario_build(const char *path)
{
    ezc3d::c3d c;
    set_rate(c, "POINT", 100.0f);
    set_rate(c, "ANALOG", 1000.0f);
    const char *pn[3] = {"point1", "point2", "Point3"};
  const char *pn2[3] = {"point1", "point2  ", "Point3"};
    for (int i = 0; i < 3; ++i) c.point(pn[i]);
    const char *an[2] = {"analog1", "analog2"};
    for (int i = 0; i < 2; ++i) c.analog(an[i]);
    {
        { ezc3d::ParametersNS::GroupNS::Parameter p("ints", "some ints");
          std::vector<int> v; for (int i = 0; i < 6; ++i) v.push_back(i * 1000 - 2500);
          p.set(v, {2, 3}); p.lock(); c.parameter("MyGroup", p); }
        { ezc3d::ParametersNS::GroupNS::Parameter p("strs", "");
          std::vector<std::string> v = {"alpha", "be", ""};
          p.set(v); c.parameter("MyGroup", p); }
        { ezc3d::ParametersNS::GroupNS::Parameter p("one", "d");
          p.set(std::string("single string")); c.parameter("MyGroup", p); }
        { ezc3d::ParametersNS::GroupNS::Parameter p("flt", "");
          std::vector<float> v = {1.5f, -0.0f};
          p.set(v); c.parameter("MyGroup", p); }
        c.lockGroup("MyGroup");
    }
    for (int f = 0; f < 4; ++f) {
        ezc3d::DataNS::Frame fr;
        ezc3d::DataNS::Points3dNS::Points pts;
        for (int i = 0; i < 3; ++i) {
            ezc3d::DataNS::Points3dNS::Point pt(pn2[i]); pt.name(pn2[i]);
            pt.x(f + 0.1f * i); pt.y(f * 2.0f); pt.z(-1.0f * i); pt.residual(0.25f);
            pts.point(pt);
        }
        ezc3d::DataNS::AnalogsNS::Analogs an_;
        for (int sf = 0; sf < 10; ++sf) {
            ezc3d::DataNS::AnalogsNS::SubFrame sub;
            for (int ch = 0; ch < 2; ++ch) {
                ezc3d::DataNS::AnalogsNS::Channel c_(an[ch]);
                c_.data(f * 100.0f + sf * 10.0f + ch);
                sub.channel(c_);
            }
            an_.subframe(sub);
        }
        fr.add(pts, an_);
        if (f == 3) c.frame(fr, 5); else c.frame(fr);
    }
    c.write(path);
}

int main(int argc, char **argv)
{
    if (argc < 2) return 2;
    try {
        if (!strcmp(argv[1], "build")) scenario_build(argv[2]);
        else if (!strcmp(argv[1], "reload")) { ezc3d::c3d c(argv[2]); c.write(argv[3]); }
        else return 2;
    } catch (std::exception &e) { std::cerr << "threw: " << e.what() << std::endl; return 9; }
    return 0;
}
