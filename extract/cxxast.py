"""Reader for `clang++ -Xclang -ast-dump=json -Xclang -ast-dump-filter=ezc3d` output.

The dump is a stream of JSON documents.  Source locations are delta-encoded by
clang (file/line appear only when they change relative to the previously
*printed* location), so `resolve_locs` replays the print order and stores the
absolute file/line on every location dictionary.
"""
import json
import subprocess
import sys


class ExtractionError(Exception):
    pass


def dump_tu(src, include_dir, filt='ezc3d'):
    cmd = ['clang++', '-std=c++11', '-I', include_dir, '-fsyntax-only',
           '-Xclang', '-ast-dump=json', '-Xclang', '-ast-dump-filter=' + filt, src]
    p = subprocess.run(cmd, stdout=subprocess.PIPE, stderr=subprocess.PIPE, text=True)
    if p.returncode != 0:
        raise ExtractionError('clang failed on %s:\n%s' % (src, p.stderr[-2000:]))
    return p.stdout


def stream(text):
    dec = json.JSONDecoder()
    i, n = 0, len(text)
    while i < n:
        while i < n and text[i].isspace():
            i += 1
        if i >= n:
            break
        o, j = dec.raw_decode(text, i)
        yield o
        i = j


class LocState:
    def __init__(self, main_file):
        self.file = main_file
        self.line = 0


def resolve_locs(node, st):
    """Walk in print order; annotate every bare location with _file/_line."""
    if isinstance(node, dict):
        if 'offset' in node and ('col' in node or 'line' in node or 'file' in node):
            if 'file' in node:
                st.file = node['file']
            if 'line' in node:
                st.line = node['line']
            node['_file'] = st.file
            node['_line'] = st.line
            return
        for k, v in node.items():
            if k == 'includedFrom':
                continue
            if isinstance(v, (dict, list)):
                resolve_locs(v, st)
    elif isinstance(node, list):
        for v in node:
            resolve_locs(v, st)


def node_line(n):
    """Best source position of a node: (file, line) of the expansion point."""
    for key in ('range', 'loc'):
        d = n.get(key)
        if not d:
            continue
        if key == 'range':
            d = d.get('begin', {})
        if 'expansionLoc' in d:
            d = d['expansionLoc']
        if '_line' in d:
            return d['_file'], d['_line']
    return None, None


FUNC_KINDS = ('CXXMethodDecl', 'FunctionDecl', 'CXXConstructorDecl', 'CXXDestructorDecl',
              'CXXConversionDecl')


class TU:
    """One translation unit: id index, records, enums, function definitions."""

    def __init__(self, src, include_dir):
        self.src = src
        text = dump_tu(src, include_dir)
        self.docs = list(stream(text))
        st = LocState(src)
        for d in self.docs:
            resolve_locs(d, st)
        self.by_id = {}
        self.parent_record = {}     # decl id -> record node
        self.records = {}           # qualified name -> node (definition)
        self.enums = {}
        self.funcs = []             # definitions with body (node, record qualified name or None)
        self.qualname = {}          # record id -> qualified name
        for d in self.docs:
            self._index(d, [], None)

    def _index(self, n, ns, rec):
        if not isinstance(n, dict):
            return
        k = n.get('kind')
        if 'id' in n and k and k.endswith('Decl'):
            self.by_id[n['id']] = n
            if rec is not None:
                self.parent_record.setdefault(n['id'], rec)
        if k == 'NamespaceDecl':
            for c in n.get('inner', []):
                self._index(c, ns + [n.get('name', '')], rec)
            return
        if k == 'CXXRecordDecl':
            qn = '::'.join(ns + [n.get('name', '')])
            if n.get('parentDeclContextId'):
                # out-of-line class definition: class A::B { ... }
                pass
            self.qualname[n['id']] = qn
            if n.get('completeDefinition'):
                self.records[qn] = n
                n['_qualname'] = qn
                for c in n.get('inner', []):
                    self._index(c, ns + [n.get('name', '')], n)
            return
        if k == 'EnumDecl':
            qn = '::'.join(ns + [n.get('name', '')])
            self.enums[qn] = n
            for c in n.get('inner', []):
                if c.get('kind') == 'EnumConstantDecl':
                    self.by_id[c['id']] = c
            return
        if k in FUNC_KINDS:
            for c in n.get('inner', []):
                if c.get('kind') == 'ParmVarDecl':
                    self.by_id[c['id']] = c
            body = [c for c in n.get('inner', []) if c.get('kind') == 'CompoundStmt']
            if body and not n.get('isImplicit'):
                self.funcs.append(n)
                n['_ns'] = list(ns)
            self._index_locals(n)
            return
        for c in n.get('inner', []):
            self._index(c, ns, rec)

    def _index_locals(self, n):
        for c in n.get('inner', []):
            if isinstance(c, dict):
                if c.get('kind') in ('VarDecl', 'ParmVarDecl') and 'id' in c:
                    self.by_id[c['id']] = c
                self._index_locals(c)

    def record_of(self, fn):
        """Qualified name of the class a function declaration/definition belongs to."""
        pid = fn.get('parentDeclContextId')
        if pid and pid in self.qualname:
            return self.qualname[pid]
        r = self.parent_record.get(fn['id'])
        if r is not None:
            return r.get('_qualname')
        prev = fn.get('previousDecl')
        if prev and prev in self.by_id:
            return self.record_of(self.by_id[prev])
        return None
