#!/usr/bin/env python3
"""Mechanical lowering of the ezc3d C++ translation units to C for CBMC.

Input : clang's typed JSON AST of every /repo/src/*.cpp (read on every run).
Output: one C translation unit (types, prototypes, function bodies) in which
        the std:: surface is expressed through the vf_* model (model/vf_std.h).

The rule set is closed: an AST node kind, cast kind, std:: member or type that
is not in the tables below raises ExtractionError (driver exit code 2) - the
lowering never guesses.  What is dropped is listed in DROPS.
"""
import os
import re
import sys
import glob
import json

sys.path.insert(0, os.path.dirname(os.path.abspath(__file__)))
from cxxast import TU, ExtractionError, node_line  # noqa: E402

DROPS = [
    "exception messages: the operand of every throw is reduced to its exception class (std::string "
    "concatenations / std::to_string calls that build the message are not evaluated)",
    "the print() member functions and every use of std::cout",
    "std::shared_ptr reference counts: shared_ptr<T> is lowered to T*, copying copies the pointer, "
    "owned objects are never released",
    "destructor calls of locals and temporaries (the only user-written destructor, c3d::~c3d, is lowered)",
    "std::bad_alloc / allocator failure",
    "iterators: std::transform(begin,end,begin,::toupper) and vector::insert(begin(),x) are mapped as whole idioms",
    "C++ access control, namespaces, the virtual keyword on ~c3d",
    "move semantics: every move construction/assignment of std::string / std::vector is lowered as a copy "
    "(the moved-from object is dead at each of the library's uses)",
]

SKIP_FUNCTIONS = {'print'}

EXC_CLASSES = {
    'std::out_of_range': 'VF_EXC_out_of_range',
    'std::invalid_argument': 'VF_EXC_invalid_argument',
    'std::runtime_error': 'VF_EXC_runtime_error',
    'std::range_error': 'VF_EXC_range_error',
    'std::ios_base::failure': 'VF_EXC_ios_failure',
}

STD_CONST = {'npos': 'VF_NPOS', 'beg': 'VF_IOS_beg', 'cur': 'VF_IOS_cur', 'end': 'VF_IOS_end',
             'in': 'VF_IOS_in', 'out': 'VF_IOS_out', 'binary': 'VF_IOS_binary'}

# ------------------------------------------------------------------ types


class Ty:
    """kind in: scalar, string, vec, sptr, class, stream, spos, sstream, exc, void, ptr, ilist, other"""

    def __init__(self, kind, c=None, elem=None, const=False, ref=False):
        self.kind, self.c, self.elem, self.const, self.ref = kind, c, elem, const, ref

    def is_obj(self):
        return self.kind in ('string', 'vec', 'class', 'stream', 'sstream', 'exc', 'ilist')

    def ctype(self):
        """C type of a value of this type (without reference-ness)."""
        k = self.kind
        if k == 'scalar':
            return self.c
        if k == 'string':
            return 'vf_string'
        if k == 'vec':
            return 'vf_vec_' + self.elem.tag()
        if k == 'sptr':
            return self.elem.ctype() + ' *'
        if k == 'class':
            return 'struct ' + self.c
        if k == 'stream':
            return 'vf_stream'
        if k == 'spos':
            return 'vf_spos'
        if k == 'sstream':
            return 'vf_sstream'
        if k == 'void':
            return 'void'
        if k == 'ptr':
            return ('const ' if self.elem.const and self.elem.kind != 'ptr' else '') + self.elem.ctype() + ' *'
        raise ExtractionError('EXTRACTION-UNSUPPORTED type kind %s (%s)' % (k, self.c))

    def tag(self):
        k = self.kind
        if k == 'scalar':
            return {'unsigned long': 'size_t', 'size_t': 'size_t', 'int': 'int', 'float': 'float'}.get(self.c) or \
                self.c.replace(' ', '_')
        if k == 'string':
            return 'string'
        if k == 'class':
            return self.c
        if k == 'vec':
            return 'vec_' + self.elem.tag()
        raise ExtractionError('EXTRACTION-UNSUPPORTED vector element kind %s' % k)

    def abbr(self):
        k = self.kind
        if k == 'scalar':
            return {'size_t': 'sz', 'unsigned int': 'uint', 'int': 'int', 'float': 'float', 'double': 'double',
                    '_Bool': 'bool', 'char': 'char'}.get(self.c, self.c.replace(' ', ''))
        if k == 'string':
            return 'str'
        if k == 'vec':
            return 'v' + self.elem.abbr()
        if k == 'class':
            return self.c
        if k == 'stream':
            return 'fs'
        if k == 'spos':
            return 'spos'
        if k == 'ptr':
            return 'p' + self.elem.abbr()
        if k == 'sptr':
            return 'sp' + self.elem.abbr()
        return k


SCALARS = {
    'int': 'int', 'unsigned int': 'unsigned int', 'unsigned': 'unsigned int', 'long': 'long', 'unsigned long': 'size_t',
    'size_t': 'size_t', 'std::size_t': 'size_t', 'float': 'float', 'double': 'double', 'bool': '_Bool',
    'char': 'char', 'unsigned char': 'unsigned char', 'signed char': 'signed char', 'short': 'short',
    'unsigned short': 'unsigned short', 'long long': 'long long', 'unsigned long long': 'unsigned long long',
    'ezc3d::DATA_TYPE': 'int', 'DATA_TYPE': 'int',
    'std::streamoff': 'long', 'std::streamsize': 'long',
    'std::_Ios_Seekdir': 'int', 'std::ios_base::seekdir': 'int', 'std::_Ios_Openmode': 'int',
    'std::ios_base::openmode': 'int', 'ios_base::openmode': 'int', 'std::nullptr_t': 'void *',
}

STRING_NAMES = ('std::string', 'std::basic_string<char>', 'std::__cxx11::basic_string<char>',
                'basic_string<char, std::char_traits<char>, std::allocator<char>>',
                'std::basic_string<char, std::char_traits<char>, std::allocator<char>>')
STREAM_NAMES = ('std::fstream', 'std::basic_fstream<char>', 'basic_fstream<char>')
SPOS_NAMES = ('std::streampos', 'std::fpos<__mbstate_t>', 'fpos<__mbstate_t>', 'std::basic_istream<char>::pos_type',
              'std::basic_ostream<char>::pos_type')
SSTREAM_NAMES = ('std::stringstream', 'std::basic_stringstream<char>', 'basic_stringstream<char>',
                 'std::__cxx11::basic_stringstream<char>', 'std::basic_ostream<char>', 'basic_ostream<char>',
                 'std::basic_ostream<char>::__ostream_type', 'std::ostream',
                 'basic_ostream<char, std::char_traits<char>>')


def split_targs(s):
    out, depth, cur = [], 0, ''
    for ch in s:
        if ch == '<':
            depth += 1
        elif ch == '>':
            depth -= 1
        if ch == ',' and depth == 0:
            out.append(cur.strip())
            cur = ''
        else:
            cur += ch
    if cur.strip():
        out.append(cur.strip())
    return out


def parse_type(s, classes):
    s = s.strip()
    ref = False
    if s.endswith('&&'):
        s, ref = s[:-2].strip(), True
    elif s.endswith('&'):
        s, ref = s[:-1].strip(), True
    # pointers
    m = re.match(r'^(.*)\*\s*(const)?$', s)
    if m and not s.endswith('>'):
        inner = parse_type(m.group(1), classes)
        return Ty('ptr', elem=inner, const=bool(m.group(2)), ref=ref)
    m = re.match(r'^(.*\S)\s*\[(\d+)\]$', s)
    if m:
        return Ty('array', c=int(m.group(2)), elem=parse_type(m.group(1), classes), ref=ref)
    const = False
    if s.startswith('const '):
        s, const = s[6:].strip(), True
    if s.endswith(' const'):
        s, const = s[:-6].strip(), True
    if s.startswith('struct '):
        s = s[7:]
    if s.startswith('class '):
        s = s[6:]
    if s == 'void':
        return Ty('void', const=const, ref=ref)
    if s in SCALARS:
        return Ty('scalar', SCALARS[s], const=const, ref=ref)
    if s in STRING_NAMES:
        return Ty('string', const=const, ref=ref)
    if s in STREAM_NAMES:
        return Ty('stream', const=const, ref=ref)
    if s in SPOS_NAMES:
        return Ty('spos', const=const, ref=ref)
    if s in SSTREAM_NAMES:
        return Ty('sstream', const=const, ref=ref)
    m = re.match(r'^(?:std::)?vector<(.*)>$', s)
    if m:
        args = split_targs(m.group(1))
        return Ty('vec', elem=parse_type(args[0], classes), const=const, ref=ref)
    m = re.match(r'^(?:std::)?shared_ptr<(.*)>$', s)
    if m:
        return Ty('sptr', elem=parse_type(m.group(1), classes), const=const, ref=ref)
    m = re.match(r'^std::__shared_ptr_access<(.*)>::element_type$', s)
    if m:
        t = parse_type(split_targs(m.group(1))[0], classes)
        t.const, t.ref = const, ref
        return t
    m = re.match(r'^(?:std::)?initializer_list<(.*)>$', s)
    if m:
        return Ty('ilist', c=s, const=const, ref=ref)
    if s in EXC_CLASSES:
        return Ty('exc', c=s, const=const, ref=ref)
    short = s.split('::')[-1]
    if s.startswith('ezc3d::') and short in classes:
        return Ty('class', short, const=const, ref=ref)
    if short in classes and '::' not in s:
        return Ty('class', short, const=const, ref=ref)
    return Ty('other', c=s, const=const, ref=ref)


# ------------------------------------------------------------------ program-level collection


class Program:
    def __init__(self, repo):
        self.repo = repo
        srcs = sorted(glob.glob(os.path.join(repo, 'src', '*.cpp')))
        if not srcs:
            raise ExtractionError('no sources under %s/src' % repo)
        self.tus = [TU(s, os.path.join(repo, 'include')) for s in srcs]
        self.classes = {}            # short name -> record node (first seen)
        self.class_tu = {}
        for tu in self.tus:
            for qn, r in tu.records.items():
                short = qn.split('::')[-1]
                if short not in self.classes:
                    self.classes[short] = r
                    self.class_tu[short] = tu
        self.statics = []            # C definitions of static / namespace-scope variables of the library (C18)
        self.erase_tags = set()      # element types some vector::erase(begin() + k) call was lowered for
        self.global_vars = {}        # decl name -> C name
        for tu in self.tus:
            for d in tu.docs:
                self._scan_globals(d)
        self.enum_values = {}
        for tu in self.tus:
            for qn, e in tu.enums.items():
                for c in e.get('inner', []):
                    if c.get('kind') == 'EnumConstantDecl':
                        self.enum_values[c['name']] = self._const_value(c)
        # function definitions, deduplicated by lowered name
        self.defs = {}               # lowered name -> (tu, node)
        self.order = []
        self.overloads = {}          # (class, name) -> count of distinct signatures
        self._count_overloads()
        for tu in self.tus:
            for f in tu.funcs:
                if f.get('name') in SKIP_FUNCTIONS:
                    continue
                fl, _ = node_line(f)
                if not fl or not fl.startswith(os.path.join(repo, 'src')):
                    if fl and fl.startswith(repo):
                        raise ExtractionError('EXTRACTION-UNSUPPORTED function defined in a header: %s at %s' % (
                            f.get('name'), fl))
                    continue
                ln = self.lowered_name(tu, f)
                if ln not in self.defs:
                    self.defs[ln] = (tu, f)
                    self.order.append(ln)

    def _scan_globals(self, n):
        if n.get('kind') == 'NamespaceDecl':
            for c in n.get('inner', []):
                self._scan_globals(c)
        elif n.get('kind') == 'VarDecl':
            f, _ = node_line(n)
            if f and f.startswith(self.repo) and n.get('name') not in self.global_vars:
                t = parse_type(n['type'].get('desugaredQualType') or n['type']['qualType'], {})
                if t.kind != 'scalar':
                    raise ExtractionError('EXTRACTION-UNSUPPORTED namespace-scope variable %s of type %s' % (
                        n.get('name'), n['type'].get('qualType')))
                cn = 'vf_global_%s' % n['name']
                self.global_vars[n['name']] = cn
                init = ''
                inner = n.get('inner') or []
                if inner and inner[0].get('kind') in ('IntegerLiteral', 'FloatingLiteral') :
                    init = ' = ' + inner[0]['value']
                self.statics.append('%s%s %s%s;' % ('const ' if t.const else '', t.ctype(), cn, init))

    def _const_value(self, c):
        def find(n):
            if 'value' in n and n.get('kind') in ('ConstantExpr', 'IntegerLiteral'):
                return n
            for x in n.get('inner', []):
                r = find(x)
                if r:
                    return r
        # unary minus on a literal
        def ev(n):
            k = n.get('kind')
            if k == 'ConstantExpr' and 'value' in n:
                return int(n['value'])
            if k == 'IntegerLiteral':
                return int(n['value'])
            if k == 'UnaryOperator' and n.get('opcode') == '-':
                return -ev(n['inner'][0])
            if n.get('inner'):
                return ev(n['inner'][0])
            raise ExtractionError('EXTRACTION-UNSUPPORTED enum initialiser')
        return ev(c['inner'][0])

    def ty(self, tnode):
        if tnode is None:
            raise ExtractionError('EXTRACTION-UNSUPPORTED missing type')
        q = tnode.get('qualType')
        d = tnode.get('desugaredQualType')
        t = parse_type(q, self.classes)
        if t.kind == 'other' and d:
            t2 = parse_type(d, self.classes)
            # desugaring drops reference-ness of typedef'd reference types only when the typedef is the reference
            if t2.kind != 'other':
                t2.ref = t2.ref or t.ref
                return t2
        if t.kind == 'ptr' and t.elem.kind == 'other' and d:
            t2 = parse_type(d, self.classes)
            if t2.kind == 'ptr' and t2.elem.kind != 'other':
                return t2
        return t

    def _sig(self, fn):
        return fn.get('type', {}).get('qualType', '')

    def _count_overloads(self):
        seen = {}
        for tu in self.tus:
            for short, r in tu.records.items():
                cname = short.split('::')[-1]
                for c in r.get('inner', []):
                    if c.get('kind') in ('CXXMethodDecl', 'CXXConstructorDecl') and not c.get('isImplicit'):
                        seen.setdefault((cname, c.get('name')), set()).add(self._sig(c))
            for d in tu.docs:
                self._free_overloads(d, seen)
        self.overloads = {k: len(v) for k, v in seen.items()}

    def _free_overloads(self, n, seen):
        if n.get('kind') == 'NamespaceDecl':
            for c in n.get('inner', []):
                self._free_overloads(c, seen)
        elif n.get('kind') == 'FunctionDecl':
            seen.setdefault((None, n.get('name')), set()).add(self._sig(n))

    def fn_param_types(self, fn):
        return [self.ty(c['type']) for c in fn.get('inner', []) if c.get('kind') == 'ParmVarDecl']

    def lowered_name(self, tu, fn):
        k = fn.get('kind')
        cls = tu.record_of(fn)
        cname = cls.split('::')[-1] if cls else None
        name = fn.get('name')
        if k == 'CXXConstructorDecl':
            base = '%s__ctor' % cname
            key = (cname, name)
        elif k == 'CXXDestructorDecl':
            return '%s__dtor' % cname
        elif cname:
            base = '%s__%s' % (cname, name)
            key = (cname, name)
        else:
            base = 'ezc3d__%s' % name
            key = (None, name)
        if self.overloads.get(key, 1) > 1:
            ab = [t.abbr() for t in self.fn_param_types(fn)]
            base += '__' + ('_'.join(ab) if ab else 'void')
        return base


# ------------------------------------------------------------------ function lowering


def cstr_literal(v):
    # clang's JSON "value" of a StringLiteral is already a quoted, escaped literal
    return v


class Fn:
    def __init__(self, prog, tu, node, lname, loop_contracts):
        self.p, self.tu, self.n, self.lname = prog, tu, node, lname
        self.lines = []
        self.tmpn = 0
        self.labn = 0
        self.handlers = ['vf_unwind']
        self.cur_line = None
        self.loop_ord = 0
        self.loop_contracts = loop_contracts.get(lname, {})
        self.used_loop_contracts = set()
        cls = tu.record_of(node)
        self.cls = cls.split('::')[-1] if cls else None
        self.is_const = bool(re.search(r'\)\s*const', node.get('type', {}).get('qualType', '')))
        self.kind = node.get('kind')
        self.indirect = set()     # decl ids whose C variable is a pointer to the object (refs, class-by-value params)
        self.names = {}           # decl id -> C name
        self.exits_via_unwind = False

    # -- emission helpers
    def emit(self, s):
        # every emitted line carries its own #line so that CBMC reports /repo source lines
        if self.cur_line is not None:
            self.lines.append('#line %d "%s"\n%s' % (self.cur_line[1], self.cur_line[0], s))
        else:
            self.lines.append(s)

    def tmp(self, pfx='vf_t'):
        self.tmpn += 1
        return '%s%d' % (pfx, self.tmpn)

    def label(self, pfx):
        self.labn += 1
        return '%s_%d' % (pfx, self.labn)

    def mark(self, n):
        f, l = node_line(n)
        if f and l and (f, l) != self.cur_line:
            self.cur_line = (f, l)

    def unsupported(self, what, n):
        f, l = node_line(n)
        raise ExtractionError('EXTRACTION-UNSUPPORTED %s at %s:%s (in %s)' % (what, f, l, self.lname))

    def ty(self, n):
        return self.p.ty(n.get('type'))

    def check_exc(self):
        self.emit('if (vf_exc) goto %s;' % self.handlers[-1])
        self.exits_via_unwind = True

    # -- signature
    def ret_type(self):
        q = self.n['type']['qualType']
        # return type = text before the parameter list
        depth, i = 0, None
        for idx, ch in enumerate(q):
            if ch == '<':
                depth += 1
            elif ch == '>':
                depth -= 1
            elif ch == '(' and depth == 0:
                i = idx
                break
        return parse_type(q[:i], self.p.classes)

    def params(self):
        return [c for c in self.n.get('inner', []) if c.get('kind') == 'ParmVarDecl']

    def signature(self):
        rt = self.ret_type() if self.kind not in ('CXXConstructorDecl', 'CXXDestructorDecl') else Ty('void')
        self.rt = rt
        ps = []
        if rt.is_obj() and not rt.ref:
            cret = 'void'
            ps.append('%s *vf_ret' % rt.ctype())
        elif rt.ref:
            cret = ('const ' if rt.const else '') + rt.ctype() + ' *'
        else:
            cret = rt.ctype()
        static = self.n.get('storageClass') == 'static'
        if self.cls and not static:
            ps.append('%sstruct %s *self' % ('const ' if self.is_const else '', self.cls))
        used = set()
        for i, c in enumerate(self.params()):
            t = self.p.ty(c['type'])
            nm = c.get('name') or ('vf_unnamed%d' % i)
            cn = nm
            if cn in used or cn in ('self', 'vf_ret'):
                cn = nm + '_%d' % i
            used.add(cn)
            self.names[c['id']] = cn
            if t.ref or t.is_obj():
                self.indirect.add(c['id'])
                ps.append('%s%s *%s' % ('const ' if t.const else '', t.ctype(), cn))
            else:
                ps.append('%s %s' % (t.ctype(), cn))
        self.cret = cret
        return '%s %s(%s)' % (cret, self.lname, ', '.join(ps) if ps else 'void')

    # -- body
    def lower(self):
        sig = self.signature()
        self.sig = sig
        self.mark(self.n)
        self.emit(sig)
        self.emit('{')
        if self.kind == 'CXXConstructorDecl':
            self.ctor_inits()
        body = [c for c in self.n['inner'] if c.get('kind') == 'CompoundStmt'][0]
        self.stmt(body)
        if self.cret == 'void':
            self.emit('return;')
        self.emit('vf_unwind: ;')
        if self.cret == 'void':
            self.emit('return;')
        elif self.cret.endswith('*'):
            self.emit('return (%s)0;' % self.cret)
        else:
            self.emit('{ %s vf_dummy VF_DUMMY_INIT; return vf_dummy; }' % self.cret)
        self.emit('}')
        missing = set(self.loop_contracts) - self.used_loop_contracts
        if missing:
            raise ExtractionError('EXTRACTION-UNSUPPORTED loop contract for %s loop %s has no loop' % (
                self.lname, sorted(missing)))
        return '\n'.join(self.lines)

    def ctor_inits(self):
        rec = self.p.classes[self.cls]
        fields = [c for c in rec.get('inner', []) if c.get('kind') == 'FieldDecl']
        inits = {}
        base_init = None
        for c in self.n.get('inner', []):
            if c.get('kind') != 'CXXCtorInitializer':
                continue
            if 'anyInit' in c:
                inits[c['anyInit']['name']] = c['inner'][0]
            elif 'baseInit' in c:
                bt = self.p.ty(c['baseInit'])
                if bt.kind == 'stream':
                    base_init = c['inner'][0]
                elif 'basic_ios' in c['baseInit'].get('qualType', ''):
                    pass
                else:
                    self.unsupported('base initialiser %s' % c['baseInit'].get('qualType'), c['inner'][0])
            else:
                self.unsupported('constructor initialiser', c)
        if base_init is not None:
            self.mark(base_init)
            self.construct_into('&self->vf_base', Ty('stream'), base_init)
        for f in fields:
            t = self.p.ty(f['type'])
            tgt = 'self->%s' % f['name']
            if f['name'] in inits:
                e = inits[f['name']]
                self.mark(e)
                self.init_storage(tgt, t, e)
            else:
                # default-initialised member
                self.default_init(tgt, t)

    def default_init(self, lv, t):
        if t.is_obj():
            self.default_ctor('&' + lv, t)
        elif t.kind == 'sptr':
            self.emit('%s = 0;' % lv)
        elif t.kind == 'spos':
            self.emit('%s = 0;' % lv)
        # scalars: left indeterminate, exactly as C++ does

    def default_ctor(self, ptr, t):
        if t.kind == 'string':
            self.emit('vf_string_ctor(%s);' % ptr)
        elif t.kind == 'vec':
            self.emit('vf_vec_%s_ctor(%s);' % (t.elem.tag(), ptr))
        elif t.kind == 'stream':
            self.emit('vf_stream_ctor(%s);' % ptr)
        elif t.kind == 'sstream':
            self.emit('vf_sstream_ctor(%s);' % ptr)
        elif t.kind == 'class':
            self.emit('%s__default_ctor(%s);' % (t.c, ptr))
            self.check_exc()
        else:
            raise ExtractionError('EXTRACTION-UNSUPPORTED default construction of %s' % t.kind)

    def init_storage(self, lv, t, e):
        """Initialise the storage `lv` (an lvalue expression) of type t from initialiser expression e."""
        if t.is_obj():
            self.construct_into('&' + lv, t, e)
        else:
            self.emit('%s = %s;' % (lv, self.rv(e)))

    # ---- statements
    def stmt(self, n):
        k = n.get('kind')
        self.mark(n)
        if k == 'CompoundStmt':
            self.emit('{')
            for c in n.get('inner', []):
                self.stmt(c)
            self.emit('}')
        elif k == 'DeclStmt':
            for c in n.get('inner', []):
                self.vardecl(c)
        elif k == 'IfStmt':
            inner = n['inner']
            if n.get('hasInit') or n.get('hasVar'):
                self.unsupported('if with init/var', n)
            cond = self.rv(inner[0])
            self.emit('if (%s)' % cond)
            self.block(inner[1])
            if len(inner) > 2:
                self.emit('else')
                self.block(inner[2])
        elif k == 'ForStmt':
            self.loop(n, True)
        elif k == 'WhileStmt':
            self.loop(n, False)
        elif k == 'ReturnStmt':
            self.ret(n)
        elif k == 'BreakStmt':
            self.emit('break;')
        elif k == 'ContinueStmt':
            if not getattr(self, 'cont_stack', None):
                self.unsupported('continue outside a loop', n)
            self.cont_stack[-1][1] = True
            self.emit('goto %s;' % self.cont_stack[-1][0])
        elif k == 'NullStmt':
            self.emit(';')
        elif k == 'CXXTryStmt':
            self.trystmt(n)
        else:
            self.expr_stmt(n)

    def block(self, n):
        self.emit('{')
        if n.get('kind') == 'CompoundStmt':
            for c in n.get('inner', []):
                self.stmt(c)
        else:
            self.stmt(n)
        self.emit('}')

    def loop(self, n, is_for):
        inner = n['inner']
        self.loop_ord += 1
        ordn = self.loop_ord
        lc = self.loop_contracts.get(str(ordn))
        if lc is not None:
            self.used_loop_contracts.add(str(ordn))
        self.emit('{')
        if is_for:
            init, condvar, cond, inc, body = inner
            if condvar:
                self.unsupported('for condition variable', n)
            if init:
                self.stmt(init)
        else:
            cond, body = inner[-2], inner[-1]
            inc = None
        # The condition is re-evaluated at the loop head; calls in it are hoisted into the head.
        self.emit('while (1)')
        if lc:
            for cl in lc:
                self.emit('  ' + cl)
        self.emit('{')
        if cond:
            self.mark(cond)
            c = self.rv(cond)
            self.emit('if (!(%s)) break;' % c)
        # `continue` jumps to the increment (the loop is a while(1) with the increment at the end of its body)
        if not hasattr(self, 'cont_stack'):
            self.cont_stack = []
        clabel = 'vf_cont_%d' % ordn
        self.cont_stack.append([clabel, False])
        self.block(body)
        used = self.cont_stack.pop()[1]
        if used:
            self.emit('%s: ;' % clabel)
        if inc:
            self.mark(inc)
            self.expr_stmt(inc)
        self.emit('}')
        self.emit('}')

    def ret(self, n):
        inner = n.get('inner', [])
        if not inner:
            self.emit('return;')
            return
        e = inner[0]
        rt = self.rt
        if rt.is_obj() and not rt.ref:
            self.construct_into('vf_ret', rt, e)
            self.emit('return;')
        elif rt.ref:
            p = self.obj(e) if rt.is_obj() else '&' + self.lv(e)
            self.emit('return %s;' % p)
        else:
            self.emit('return %s;' % self.rv(e))

    def trystmt(self, n):
        inner = n['inner']
        body, catches = inner[0], inner[1:]
        lcatch = self.label('vf_catch')
        lend = self.label('vf_tryend')
        self.emit('{')
        self.handlers.append(lcatch)
        self.block(body)
        self.handlers.pop()
        self.emit('goto %s;' % lend)
        self.emit('%s: ;' % lcatch)
        for c in catches:
            ci = c['inner']
            var = ci[0]
            if var.get('kind') != 'VarDecl':
                self.unsupported('catch (...)', c)
            et = self.p.ty(var['type'])
            if et.kind != 'exc':
                self.unsupported('catch of non-library exception type %s' % var['type'].get('qualType'), c)
            self.mark(c)
            self.emit('if (vf_exc == %s) {' % EXC_CLASSES[et.c])
            self.emit('vf_exc = 0;')
            self.block(ci[1])
            self.emit('goto %s;' % lend)
            self.emit('}')
        self.emit('goto %s;' % self.handlers[-1])
        self.exits_via_unwind = True
        self.emit('%s: ;' % lend)
        self.emit('}')

    def vardecl(self, v):
        if v.get('kind') != 'VarDecl':
            self.unsupported('declaration %s' % v.get('kind'), v)
        t = self.p.ty(v['type'])
        name = v['name']
        cn = name
        if v.get('storageClass') == 'static':
            # shared mutable state (C18): kept as a C static so that every write to it is a frame violation
            if t.kind not in ('scalar', 'vec') and not (t.kind == 'array' and t.elem.kind == 'scalar'):
                self.unsupported('static local variable of type %s' % t.kind, v)
            cn = 'vf_static_%s_%s' % (self.lname, name)
            self.names[v['id']] = cn
            init = v.get('inner', [None])[0] if v.get('inner') else None
            if t.kind == 'vec':
                # a default-constructed static vector: the zero-initialised C static (data = 0, size = 0) is the empty vector
                if init is not None and not (init.get('kind') == 'CXXConstructExpr' and not init.get('inner')):
                    self.unsupported('static local vector with an initialiser', v)
                self.p.statics.append('%s %s;' % (t.ctype(), cn))
                return
            if t.kind == 'array':
                self.p.statics.append('%s %s[%d];' % (t.elem.ctype(), cn, t.c))
            else:
                val = ''
                if init is not None:
                    mark = len(self.lines)
                    val = self.rv(init)
                    if len(self.lines) != mark:
                        self.unsupported('static local with a non-constant initialiser', v)
                self.p.statics.append('%s %s%s;' % (t.ctype(), cn, (' = ' + val) if val else ''))
            return
        if cn in ('self', 'vf_ret') or cn.startswith('vf_'):
            cn = name + '_l'
        self.names[v['id']] = cn
        init = v.get('inner', [None])[0] if v.get('inner') else None
        if t.ref:
            self.indirect.add(v['id'])
            if init is None:
                self.unsupported('reference without initialiser', v)
            if t.is_obj():
                p = self.obj(init)
            else:
                p = '&' + self.lv(init)
            self.emit('%s%s *%s = %s;' % ('const ' if t.const else '', t.ctype(), cn, p))
            return
        if t.is_obj():
            self.emit('%s %s;' % (t.ctype(), cn))
            if init is None:
                self.default_ctor('&' + cn, t)
            else:
                self.construct_into('&' + cn, t, init)
            return
        if t.kind == 'array':
            if not (t.elem.kind == 'scalar'):
                self.unsupported('local array of %s' % t.elem.kind, v)
            if init is None:
                self.emit('%s %s[%d];' % (t.elem.ctype(), cn, t.c))
                return
            il = self.strip(init)
            if il.get('kind') != 'InitListExpr' or il.get('array_filler') or len(il.get('inner', [])) != t.c:
                self.unsupported('array initialiser other than a complete brace list', v)
            vals = [self.rv(e) for e in il['inner']]
            self.emit('%s %s[%d] = {%s};' % (t.elem.ctype(), cn, t.c, ', '.join(vals)))
            return
        if t.kind == 'other':
            self.unsupported('variable of type %s' % t.c, v)
        if init is None:
            if t.kind == 'spos':
                self.emit('%s %s = 0;' % (t.ctype(), cn))
            elif t.kind == 'sptr':
                self.emit('%s %s = 0;' % (t.ctype(), cn))
            else:
                self.emit('%s %s;' % (t.ctype(), cn))
        else:
            val = self.rv(init)
            self.emit('%s %s = %s;' % (t.ctype(), cn, val))

    def expr_stmt(self, n):
        k = n.get('kind')
        if k in ('ExprWithCleanups', 'CXXBindTemporaryExpr', 'ParenExpr'):
            self.expr_stmt(n['inner'][0])
            return
        if k == 'CXXThrowExpr':
            self.throw(n)
            return
        t = self.ty(n)
        if t.is_obj():
            self.obj(n)
        elif t.kind == 'void':
            self.void_call(n)
        else:
            s = self.rv(n, discard=True)
            if s:
                self.emit('(void)(%s);' % s)

    def throw(self, n):
        inner = n.get('inner', [])
        if not inner:
            self.unsupported('rethrow', n)
        et = self.ty(inner[0])
        if et.kind != 'exc':
            self.unsupported('throw of %s' % inner[0].get('type', {}).get('qualType'), n)
        self.emit('vf_exc = %s; goto %s;' % (EXC_CLASSES[et.c], self.handlers[-1]))
        self.exits_via_unwind = True

    # ---- expressions: scalar rvalues
    def strip(self, n):
        while n.get('kind') in ('ExprWithCleanups', 'CXXBindTemporaryExpr', 'MaterializeTemporaryExpr', 'ParenExpr',
                                'ConstantExpr'):
            n = n['inner'][0]
        return n

    def lit_int(self, n):
        t = self.ty(n)
        v = n['value']
        suf = {'size_t': 'UL', 'unsigned int': 'U', 'long': 'L', 'unsigned long long': 'ULL', 'long long': 'LL'}.get(
            t.c, '')
        return v + suf

    def rv(self, n, discard=False):
        """C expression for the value of a non-class expression (scalars, pointers, shared_ptr, streampos)."""
        k = n.get('kind')
        if k in ('ExprWithCleanups', 'CXXBindTemporaryExpr', 'MaterializeTemporaryExpr', 'ConstantExpr'):
            return self.rv(n['inner'][0], discard)
        if k == 'ParenExpr':
            return '(%s)' % self.rv(n['inner'][0])
        if k == 'IntegerLiteral':
            return self.lit_int(n)
        if k == 'CharacterLiteral':
            return str(n['value'])
        if k == 'FloatingLiteral':
            v = n['value']
            if not re.search(r'[.eEnN]', v):
                v += '.0'
            return v + ('f' if self.ty(n).c == 'float' else '')
        if k == 'CXXBoolLiteralExpr':
            return '1' if n['value'] else '0'
        if k == 'CXXNullPtrLiteralExpr':
            return '0'
        if k == 'StringLiteral':
            return cstr_literal(n['value'])
        if k == 'CXXThisExpr':
            return 'self'
        if k == 'ConditionalOperator':
            # scalar c ? a : b whose arms need no hoisted statement (no call, no temporary): a C conditional expression;
            # anything else stays outside the rule set
            c = self.rv(n['inner'][0])
            mark = len(self.lines)
            a = self.rv(n['inner'][1])
            b = self.rv(n['inner'][2])
            if len(self.lines) != mark:
                self.unsupported('conditional operator whose arms need statements', n)
            return '((%s) ? (%s) : (%s))' % (c, a, b)
        if k == 'ImplicitCastExpr' or k in ('CXXStaticCastExpr', 'CXXFunctionalCastExpr', 'CStyleCastExpr',
                                            'CXXReinterpretCastExpr', 'CXXConstCastExpr'):
            return self.cast(n)
        if k in ('DeclRefExpr', 'MemberExpr', 'ArraySubscriptExpr'):
            if k == 'DeclRefExpr':
                rd = n['referencedDecl']
                if rd['kind'] == 'EnumConstantDecl':
                    if rd['name'] not in self.p.enum_values:
                        self.unsupported('enumerator %s' % rd['name'], n)
                    return '(%d)' % self.p.enum_values[rd['name']]
            return self.lv(n)
        if k == 'UnaryOperator':
            op = n['opcode']
            sub = n['inner'][0]
            if op in ('++', '--'):
                l = self.lv(sub)
                if n.get('isPostfix'):
                    if discard:
                        self.emit('%s%s;' % (l, op))
                        return ''
                    t = self.tmp()
                    self.emit('%s %s = %s; %s%s;' % (self.ty(n).ctype(), t, l, l, op))
                    return t
                self.emit('%s%s;' % (op, l))
                return '' if discard else l
            if op == '*':
                return self.lv(n)
            if op == '&':
                st = self.ty(sub)
                if st.is_obj():
                    return self.obj(sub)
                return '(&%s)' % self.lv(sub)
            if op in ('!', '-', '~', '+'):
                return '(%s%s)' % (op, self.rv(sub))
            self.unsupported('unary operator %s' % op, n)
        if k == 'BinaryOperator':
            return self.binop(n, discard)
        if k == 'CompoundAssignOperator':
            l = self.lv(n['inner'][0])
            r = self.rv(n['inner'][1])
            self.emit('%s %s %s;' % (l, n['opcode'], r))
            return '' if discard else l
        if k == 'CXXNewExpr':
            return self.newexpr(n)
        if k == 'CXXDeleteExpr':
            p = self.rv(n['inner'][0])
            arr = bool(n.get('isArray') or n.get('isArrayAsWritten'))
            # call-site obligation (C13): the deallocator matches the allocator
            self.emit('VF_CHECK_DELETE(%s, %d);' % (p, 1 if arr else 2))
            self.emit('%s(%s);' % ('vf_delete_array' if arr else 'vf_delete_object', p))
            return ''
        if k in ('CallExpr', 'CXXMemberCallExpr', 'CXXOperatorCallExpr'):
            return self.call(n, discard=discard)
        if k == 'CXXConstructExpr' or k == 'CXXTemporaryObjectExpr':
            t = self.ty(n)
            args = n.get('inner', [])
            if t.kind == 'sptr':
                if not args:
                    return '0'
                a = self.strip(args[0])
                at = self.ty(a)
                if at.kind in ('sptr', 'ptr'):
                    return self.rv(args[0])
            if t.kind == 'spos':
                if not args:
                    return '0'
                return '((vf_spos)(%s))' % self.rv(args[0])
            self.unsupported('construction of %s' % n['type'].get('qualType'), n)
        if k == 'CXXDefaultArgExpr':
            return self.rv(self.default_arg_expr(n))
        if k == 'CXXThrowExpr':
            self.throw(n)
            return ''
        self.unsupported('expression kind %s' % k, n)

    def default_arg_expr(self, n):
        e = n.get('_default')
        if e is None:
            self.unsupported('default argument without resolved callee parameter', n)
        return e

    def cast(self, n):
        ck = n.get('castKind')
        sub = n['inner'][0]
        t = self.ty(n)
        if ck in ('LValueToRValue',):
            return self.lv(sub)
        if ck in ('NoOp', 'ConstructorConversion', 'FunctionToPointerDecay'):
            if n.get('kind') in ('CXXStaticCastExpr', 'CXXFunctionalCastExpr', 'CStyleCastExpr') and \
                    t.kind in ('scalar',):
                return '((%s)(%s))' % (t.ctype(), self.rv(sub))
            return self.rv(sub)
        if ck in ('IntegralCast', 'IntegralToFloating', 'FloatingToIntegral', 'FloatingCast', 'BitCast'):
            return '((%s)(%s))' % (t.ctype(), self.rv(sub))
        if ck in ('IntegralToBoolean', 'FloatingToBoolean', 'PointerToBoolean'):
            return '((%s) != 0)' % self.rv(sub)
        if ck == 'ArrayToPointerDecay':
            s = self.strip(sub)
            if s.get('kind') == 'StringLiteral':
                return cstr_literal(s['value'])
            if s.get('kind') == 'DeclRefExpr' and self.ty(s).kind == 'array':
                return self.lv(s)
            self.unsupported('array decay of non-literal', n)
        if ck == 'NullToPointer':
            return '0'
        if ck in ('UncheckedDerivedToBase', 'DerivedToBase'):
            # pointer conversion c3d* -> fstream*
            if t.kind == 'ptr' and t.elem.kind == 'stream':
                return '(&(%s)->vf_base)' % self.rv(sub)
            self.unsupported('derived-to-base conversion to %s' % n['type'].get('qualType'), n)
        if ck == 'UserDefinedConversion':
            return self.rv(sub)
        self.unsupported('cast kind %s' % ck, n)

    def binop(self, n, discard=False):
        op = n['opcode']
        a, b = n['inner']
        if op == '=':
            lt = self.ty(a)
            if lt.is_obj():
                self.unsupported('builtin assignment of class type', n)
            r = self.rv(b)
            l = self.lv(a)
            self.emit('%s = %s;' % (l, r))
            return '' if discard else l
        if op == ',':
            s = self.rv(a, discard=True)
            if s:
                self.emit('(void)(%s);' % s)
            return self.rv(b, discard)
        if op in ('&&', '||'):
            l = self.rv(a)
            mark = len(self.lines)
            r = self.rv(b)
            if len(self.lines) == mark:
                return '(%s %s %s)' % (l, op, r)
            # right operand needed hoisted statements: keep short-circuit evaluation
            pre = self.lines[mark:]
            del self.lines[mark:]
            t = self.tmp()
            self.emit('_Bool %s = (%s) != 0;' % (t, l))
            self.emit('if (%s%s) {' % ('' if op == '&&' else '!', t))
            self.lines.extend(pre)
            self.emit('%s = (%s) != 0;' % (t, r))
            self.emit('}')
            return t
        l = self.rv(a)
        r = self.rv(b)
        return '(%s %s %s)' % (l, op, r)

    def newexpr(self, n):
        t = self.ty(n)           # pointer type
        et = t.elem
        if n.get('isArray'):
            cnt = self.rv(n['inner'][0])
            v = self.tmp()
            self.emit('%s *%s = (%s *)vf_new_array((size_t)(%s), sizeof(%s));' % (et.ctype(), v, et.ctype(), cnt,
                                                                                   et.ctype()))
            return v
        v = self.tmp()
        self.emit('%s *%s = (%s *)vf_new_object(sizeof(%s));' % (et.ctype(), v, et.ctype(), et.ctype()))
        inner = n.get('inner', [])
        if et.is_obj():
            if not inner:
                self.default_ctor(v, et)
            else:
                self.construct_into(v, et, inner[0])
        elif inner:
            self.emit('*%s = %s;' % (v, self.rv(inner[0])))
        return v

    # ---- lvalues of scalar type
    def varname(self, rd, n):
        did = rd['id']
        if did in self.names:
            return self.names[did]
        if rd.get('name') in STD_CONST and rd.get('kind') == 'VarDecl':
            return None
        if rd.get('kind') == 'VarDecl' and rd.get('name') in self.p.global_vars:
            return self.p.global_vars[rd['name']]
        self.unsupported('reference to unknown variable %s' % rd.get('name'), n)

    def lv(self, n):
        k = n.get('kind')
        if k in ('ParenExpr',):
            return '(%s)' % self.lv(n['inner'][0])
        if k in ('ExprWithCleanups', 'MaterializeTemporaryExpr', 'CXXBindTemporaryExpr'):
            s = self.strip(n)
            if s.get('valueCategory') == 'prvalue':
                t = self.ty(s)
                v = self.tmp()
                self.emit('%s %s = %s;' % (t.ctype(), v, self.rv(s)))
                return v
            return self.lv(s)
        if k == 'ImplicitCastExpr' and n.get('castKind') == 'NoOp':
            return self.lv(n['inner'][0])
        if k == 'DeclRefExpr':
            rd = n['referencedDecl']
            if rd['kind'] in ('VarDecl', 'ParmVarDecl'):
                nm = self.varname(rd, n)
                if nm is None:
                    return STD_CONST[rd['name']]
                return '(*%s)' % nm if rd['id'] in self.indirect else nm
            if rd['kind'] == 'EnumConstantDecl':
                return '(%d)' % self.p.enum_values[rd['name']]
            self.unsupported('reference to %s' % rd['kind'], n)
        if k == 'MemberExpr':
            base = n['inner'][0]
            if n.get('isArrow'):
                b = self.rv(base)
            else:
                b = self.obj(base)
            return '%s->%s' % (self.paren(b), n['name'])
        if k == 'UnaryOperator' and n['opcode'] == '*':
            return '(*%s)' % self.rv(n['inner'][0])
        if k == 'UnaryOperator' and n['opcode'] in ('++', '--') and not n.get('isPostfix'):
            l = self.lv(n['inner'][0])
            self.emit('%s%s;' % (n['opcode'], l))
            return l
        if k == 'ArraySubscriptExpr':
            return '%s[%s]' % (self.paren(self.rv(n['inner'][0])), self.rv(n['inner'][1]))
        if k in ('CXXOperatorCallExpr', 'CXXMemberCallExpr', 'CallExpr'):
            return self.call(n, want='lv')
        if k == 'BinaryOperator' and n['opcode'] == '=':
            return self.binop(n)
        if k == 'CompoundAssignOperator':
            return self.rv(n)
        if k == 'CXXDefaultArgExpr':
            return self.lv(self.default_arg_expr(n))
        self.unsupported('lvalue expression kind %s' % k, n)

    def paren(self, s):
        return s if re.match(r'^[A-Za-z_][A-Za-z_0-9]*$', s) else '(%s)' % s

    # ---- class-type expressions: pointer to the object
    def obj(self, n):
        k = n.get('kind')
        t = self.ty(n)
        if k in ('ExprWithCleanups', 'CXXBindTemporaryExpr', 'MaterializeTemporaryExpr', 'ParenExpr'):
            return self.obj(n['inner'][0])
        if k == 'ImplicitCastExpr':
            ck = n.get('castKind')
            if ck in ('NoOp', 'ConstructorConversion'):
                return self.obj(n['inner'][0])
            if ck in ('UncheckedDerivedToBase', 'DerivedToBase'):
                st = self.ty(n['inner'][0])
                if st.kind == 'class' and t.kind == 'stream':
                    return '(&%s->vf_base)' % self.paren(self.obj(n['inner'][0]))
                if st.kind == 'sstream' or t.kind == 'sstream':
                    return self.obj(n['inner'][0])
                self.unsupported('derived-to-base %s' % n['type'].get('qualType'), n)
            self.unsupported('class cast kind %s' % ck, n)
        if k == 'CXXFunctionalCastExpr' or k == 'CXXStaticCastExpr':
            return self.obj(n['inner'][0])
        if k == 'DeclRefExpr':
            rd = n['referencedDecl']
            nm = self.varname(rd, n)
            return nm if rd['id'] in self.indirect else '(&%s)' % nm
        if k == 'MemberExpr':
            return '(&%s)' % self.lv(n)
        if k == 'UnaryOperator' and n['opcode'] == '*':
            return self.rv(n['inner'][0])
        if k == 'CXXThisExpr':
            return 'self'
        if k in ('CXXConstructExpr', 'CXXTemporaryObjectExpr'):
            v = self.tmp()
            self.emit('%s %s;' % (t.ctype(), v))
            self.construct_into('&' + v, t, n)
            return '(&%s)' % v
        if k in ('CallExpr', 'CXXMemberCallExpr', 'CXXOperatorCallExpr'):
            return self.call(n, want='obj')
        if k == 'CXXDefaultArgExpr':
            return self.obj(self.default_arg_expr(n))
        if k == 'InitListExpr':
            v = self.tmp()
            self.emit('%s %s;' % (t.ctype(), v))
            self.construct_into('&' + v, t, n)
            return '(&%s)' % v
        self.unsupported('class-type expression kind %s' % k, n)

    def construct_into(self, ptr, t, e):
        """Construct an object of type t at *ptr from initialiser expression e."""
        e0 = e
        e = self.strip(e)
        k = e.get('kind')
        if k == 'ImplicitCastExpr' and e.get('castKind') in ('NoOp', 'ConstructorConversion'):
            return self.construct_into(ptr, t, e['inner'][0])
        if k == 'CXXFunctionalCastExpr':
            return self.construct_into(ptr, t, e['inner'][0])
        if k == 'CXXDefaultArgExpr':
            return self.construct_into(ptr, t, self.default_arg_expr(e))
        if k in ('CXXConstructExpr', 'CXXTemporaryObjectExpr'):
            args = e.get('inner', [])
            ctor = e.get('ctorType', {}).get('qualType', '')
            if e.get('elidable') and args:
                return self.construct_into(ptr, t, args[0])
            return self.ctor_call(ptr, t, ctor, args, e)
        if k == 'InitListExpr':
            if t.kind == 'vec':
                self.emit('vf_vec_%s_ctor(%s);' % (t.elem.tag(), ptr))
                for a in e.get('inner', []):
                    self.vec_push(ptr, t, a)
                return
            self.unsupported('init list for %s' % t.kind, e)
        if k in ('CallExpr', 'CXXMemberCallExpr', 'CXXOperatorCallExpr') and e.get('valueCategory') == 'prvalue':
            # by-value class return: constructed directly into the target (copy elision)
            self.call(e, want='into', into=ptr)
            return
        # copy from a glvalue
        src = self.obj(e0)
        self.copy_construct(ptr, t, src)

    def copy_construct(self, ptr, t, src):
        if t.kind == 'string':
            self.emit('vf_string_ctor_copy(%s, %s);' % (ptr, src))
        elif t.kind == 'vec':
            self.emit('vf_vec_%s_ctor_copy(%s, %s);' % (t.elem.tag(), ptr, src))
        elif t.kind == 'class':
            self.emit('%s(%s, %s);' % (self.p_copy_ctor(t.c), ptr, src))
            self.check_exc()
        else:
            raise ExtractionError('EXTRACTION-UNSUPPORTED copy construction of %s' % t.kind)

    def p_copy_ctor(self, cname):
        return '%s__copy_ctor' % cname

    def ctor_call(self, ptr, t, ctor, args, e):
        nargs = len(args)
        if t.kind == 'string':
            if nargs == 0:
                self.emit('vf_string_ctor(%s);' % ptr)
                return
            a0 = args[0]
            at = self.ty(self.strip(a0))
            if at.kind == 'string':
                self.emit('vf_string_ctor_copy(%s, %s);' % (ptr, self.obj(a0)))
                return
            if at.kind == 'ptr' and at.elem.kind == 'scalar' and at.elem.c == 'char':
                s = self.strip(a0)
                while s.get('kind') == 'ImplicitCastExpr' and s.get('castKind') in ('ArrayToPointerDecay', 'NoOp'):
                    s = self.strip(s['inner'][0])
                if s.get('kind') == 'StringLiteral':
                    lit = s['value']
                    self.emit('vf_string_ctor_lit(%s, %s, %d);' % (ptr, cstr_literal(lit), self.lit_len(lit)))
                else:
                    self.emit('vf_string_ctor_cstr(%s, %s);' % (ptr, self.rv(a0)))
                return
            self.unsupported('std::string constructor %s' % ctor, e)
        if t.kind == 'vec':
            tag = t.elem.tag()
            if nargs == 0:
                self.emit('vf_vec_%s_ctor(%s);' % (tag, ptr))
                return
            a0 = self.strip(args[0])
            at = self.ty(a0)
            if at.kind == 'vec':
                self.emit('vf_vec_%s_ctor_copy(%s, %s);' % (tag, ptr, self.obj(args[0])))
                return
            if self.as_ilist(a0) is not None:
                self.emit('vf_vec_%s_ctor(%s);' % (tag, ptr))
                self.ilist_push(ptr, t, self.as_ilist(a0))
                return
            self.unsupported('std::vector constructor %s' % ctor, e)
        if t.kind == 'stream':
            if nargs == 0:
                self.emit('vf_stream_ctor(%s);' % ptr)
            else:
                self.emit('vf_stream_ctor_open(%s, %s, %s);' % (ptr, self.obj(args[0]), self.rv(args[1])))
            return
        if t.kind == 'sstream':
            if nargs == 0:
                self.emit('vf_sstream_ctor(%s);' % ptr)
                return
            self.unsupported('stringstream constructor %s' % ctor, e)
        if t.kind == 'class':
            # implicit copy constructor?
            m = re.match(r'^void \(const (.*) &\)', ctor)
            if nargs == 1 and self.ty(self.strip(args[0])).kind == 'class' and \
                    self.ty(self.strip(args[0])).c == t.c:
                self.emit('%s(%s, %s);' % (self.p_copy_ctor(t.c), ptr, self.obj(args[0])))
                self.check_exc()
                return
            fn = self.p_find_ctor(t.c, ctor, e)
            cargs = self.lower_args(fn, args, e)
            self.emit('%s(%s);' % (fn['_lname'], ', '.join([ptr] + cargs)))
            self.check_exc()
            return
        self.unsupported('construction of %s' % t.kind, e)

    def lit_len(self, lit):
        # length in bytes of a C string literal as printed by clang (quoted, escaped)
        body = lit[1:-1]
        return len(bytes(body, 'utf-8').decode('unicode_escape').encode('latin-1', 'replace'))

    def p_find_ctor(self, cname, ctor_sig, e):
        rec = self.p.classes[cname]
        tu = self.p.class_tu[cname]
        cands = [c for c in rec.get('inner', []) if c.get('kind') == 'CXXConstructorDecl' and not c.get('isImplicit')]
        for c in cands:
            if c.get('type', {}).get('qualType') == ctor_sig:
                c['_lname'] = self.p.lowered_name(tu, c)
                c['_tu'] = tu
                return c
        self.unsupported('constructor %s of %s' % (ctor_sig, cname), e)

    def as_ilist(self, a):
        """If expression a denotes a std::initializer_list, return the node to hand to ilist_elems."""
        s = self.strip(a)
        if s.get('kind') == 'CXXStdInitializerListExpr':
            return s
        if s.get('kind') in ('CXXConstructExpr', 'CXXTemporaryObjectExpr') and self.ty(s).kind == 'ilist' \
                and not s.get('inner'):
            return s
        return None

    def ilist_elems(self, il):
        if il.get('kind') != 'CXXStdInitializerListExpr':
            return []
        s = self.strip(il['inner'][0]) if il.get('inner') else None
        if s is None:
            return []
        if s.get('kind') != 'InitListExpr':
            self.unsupported('initializer_list backing %s' % s.get('kind'), il)
        return s.get('inner', [])

    def ilist_push(self, ptr, vt, il):
        for a in self.ilist_elems(il):
            self.vec_push(ptr, vt, a)

    def vec_push(self, ptr, vt, a):
        tag = vt.elem.tag()
        if vt.elem.is_obj():
            self.emit('vf_vec_%s_push_back(%s, %s);' % (tag, ptr, self.obj(a)))
            if vt.elem.kind == 'class':
                self.check_exc()
        else:
            self.emit('vf_vec_%s_push_back(%s, %s);' % (tag, ptr, self.rv(a)))

    # ---- calls
    def resolve_callee(self, did):
        """Find the declaration node (with parameters) for a referenced function id."""
        d = self.tu.by_id.get(did)
        return d

    def lower_args(self, fn, args, e):
        """Lower call arguments against the callee's parameter declarations."""
        params = [c for c in fn.get('inner', []) if c.get('kind') == 'ParmVarDecl']
        out = []
        for i, a in enumerate(args):
            if i >= len(params):
                self.unsupported('too many arguments', e)
            pt = self.p.ty(params[i]['type'])
            if self.strip(a).get('kind') == 'CXXDefaultArgExpr':
                d = self.param_default(fn, i)
                if d is None:
                    self.unsupported('default argument %d of %s not found' % (i, fn.get('name')), e)
                self.strip(a)['_default'] = d
            if pt.is_obj():
                if pt.ref:
                    out.append(self.obj(a))
                else:
                    v = self.tmp()
                    self.emit('%s %s;' % (pt.ctype(), v))
                    self.construct_into('&' + v, pt, a)
                    out.append('&' + v)
            elif pt.ref:
                s = self.strip(a)
                if s.get('kind') == 'CXXDefaultArgExpr':
                    a = s = self.default_arg_expr(s)
                if pt.const or s.get('valueCategory') == 'prvalue' or a.get('kind') == 'MaterializeTemporaryExpr':
                    v = self.tmp()
                    self.emit('%s %s = %s;' % (pt.ctype(), v, self.rv(a)))
                    out.append('&' + v)
                else:
                    out.append('&' + self.lv(a))
            else:
                out.append(self.rv(a))
        return out

    def param_default(self, fn, i):
        def get(f):
            ps = [c for c in f.get('inner', []) if c.get('kind') == 'ParmVarDecl']
            if i < len(ps) and ps[i].get('inner'):
                return ps[i]['inner'][0]
            return None
        d = get(fn)
        seen = set()
        cur = fn
        while d is None and cur.get('previousDecl') and cur['previousDecl'] not in seen:
            seen.add(cur['previousDecl'])
            cur = self.tu.by_id.get(cur['previousDecl'])
            if cur is None:
                break
            d = get(cur)
        return d

    def user_fn_info(self, decl):
        tu = self.tu
        ln = self.p.lowered_name(tu, decl)
        return ln

    def finish_call(self, fname, cargs, rt, want, into, n, can_throw=True):
        """Emit a call statement; return the C expression for its result according to `want`."""
        if rt.is_obj() and not rt.ref:
            if want == 'into':
                tgt = into
            else:
                v = self.tmp()
                self.emit('%s %s;' % (rt.ctype(), v))
                tgt = '&' + v
            self.emit('%s(%s);' % (fname, ', '.join([tgt] + cargs)))
            if can_throw:
                self.check_exc()
            return tgt if want != 'into' else ''
        if rt.kind == 'void':
            self.emit('%s(%s);' % (fname, ', '.join(cargs)))
            if can_throw:
                self.check_exc()
            return ''
        v = self.tmp()
        if rt.ref:
            decl = '%s%s *%s' % ('const ' if rt.const else '', rt.ctype(), v)
        else:
            decl = '%s %s' % (rt.ctype(), v)
        self.emit('%s = %s(%s);' % (decl, fname, ', '.join(cargs)))
        if can_throw:
            self.check_exc()
        if rt.ref:
            if want == 'obj' or rt.is_obj():
                return v
            return '(*%s)' % v
        return v

    def void_call(self, n):
        n = self.strip(n)
        k = n.get('kind')
        if k in ('CallExpr', 'CXXMemberCallExpr', 'CXXOperatorCallExpr'):
            self.call(n, discard=True)
        elif k == 'CXXThrowExpr':
            self.throw(n)
        elif k == 'CXXDeleteExpr':
            self.rv(n)
        else:
            self.unsupported('void expression %s' % k, n)

    def call(self, n, want='rv', into=None, discard=False):
        k = n.get('kind')
        if k == 'CXXMemberCallExpr':
            return self.member_call(n, want, into, discard)
        if k == 'CXXOperatorCallExpr':
            return self.operator_call(n, want, into, discard)
        return self.free_call(n, want, into, discard)

    def callee_decl_ref(self, n):
        c = n['inner'][0]
        while c.get('kind') in ('ImplicitCastExpr', 'ParenExpr'):
            c = c['inner'][0]
        return c

    def free_call(self, n, want, into, discard):
        c = self.callee_decl_ref(n)
        if c.get('kind') != 'DeclRefExpr':
            self.unsupported('indirect call', n)
        rd = c['referencedDecl']
        name = rd['name']
        args = n['inner'][1:]
        decl = self.tu.by_id.get(rd['id'])
        if decl is not None and decl.get('kind') == 'FunctionDecl' and self.is_user(decl):
            rt = self.fn_ret(decl)
            ln = self.p.lowered_name(self.tu, decl)
            cargs = self.lower_args(decl, args, n)
            return self.finish_call(ln, cargs, rt, want, into, n)
        if name == 'pow' and len(args) == 2:
            v = self.tmp()
            self.emit('double %s = vf_pow(%s, %s);' % (v, self.rv(args[0]), self.rv(args[1])))
            return v
        if name == 'abs' and len(args) == 1:
            v = self.tmp()
            self.emit('int %s = vf_abs(%s);' % (v, self.rv(args[0])))
            return v
        if name == 'transform' and len(args) == 4:
            return self.transform_idiom(n, args)
        self.unsupported('call to %s' % name, n)

    def transform_idiom(self, n, args):
        def recv(a, member):
            s = self.strip(a)
            while s.get('kind') in ('CXXConstructExpr', 'ImplicitCastExpr', 'CXXFunctionalCastExpr'):
                s = self.strip(s['inner'][0])
            if s.get('kind') != 'CXXMemberCallExpr':
                return None
            m = s['inner'][0]
            if m.get('kind') != 'MemberExpr' or m.get('name') != member:
                return None
            base = self.strip(m['inner'][0])
            if base.get('kind') != 'DeclRefExpr':
                return None
            return base
        b0, b1, b2 = recv(args[0], 'begin'), recv(args[1], 'end'), recv(args[2], 'begin')
        f = self.strip(args[3])
        while f.get('kind') == 'ImplicitCastExpr':
            f = f['inner'][0]
        ok = b0 and b1 and b2 and b0['referencedDecl']['id'] == b1['referencedDecl']['id'] == \
            b2['referencedDecl']['id'] and f.get('kind') == 'DeclRefExpr' and \
            f['referencedDecl']['name'] == 'toupper' and self.ty(b0).kind == 'string'
        if not ok:
            self.unsupported('std::transform other than the in-place toupper idiom', n)
        self.emit('vf_string_map_toupper(%s);' % self.obj(b0))
        return ''

    def is_user(self, decl):
        f, _ = node_line(decl)
        return bool(f) and f.startswith(self.p.repo)

    def fn_ret(self, decl):
        q = decl['type']['qualType']
        depth, i = 0, None
        for idx, ch in enumerate(q):
            if ch == '<':
                depth += 1
            elif ch == '>':
                depth -= 1
            elif ch == '(' and depth == 0:
                i = idx
                break
        return parse_type(q[:i], self.p.classes)

    def member_call(self, n, want, into, discard):
        m = n['inner'][0]
        while m.get('kind') in ('ParenExpr',):
            m = m['inner'][0]
        if m.get('kind') != 'MemberExpr':
            self.unsupported('member call through %s' % m.get('kind'), n)
        args = n['inner'][1:]
        base = self.peel_base(m['inner'][0])
        name = m['name']
        bt = self.ty(base)
        if m.get('isArrow'):
            if bt.kind != 'ptr':
                self.unsupported('-> on %s' % bt.kind, n)
            rcv_t = bt.elem
            def rcv():
                return self.rv(base)
        else:
            rcv_t = bt
            def rcv():
                return self.obj(base)
        if rcv_t.kind == 'class':
            decl = self.tu.by_id.get(m.get('referencedMemberDecl'))
            if decl is None:
                rec = self.p.classes[rcv_t.c]
                if any(self.p.ty(b['type']).kind == 'stream' for b in rec.get('bases', [])):
                    return self.stream_call('(&%s->vf_base)' % self.paren(rcv()), name, args, n, want)
                self.unsupported('unresolved member %s' % name, n)
            if decl.get('name') in SKIP_FUNCTIONS:
                self.unsupported('call to dropped function %s' % name, n)
            if decl.get('kind') == 'CXXConversionDecl':
                self.unsupported('user conversion', n)
            owner = self.tu.record_of(decl)
            rt = self.fn_ret(decl)
            r = rcv()
            if owner is None:
                # inherited std::fstream member called on c3d
                return self.stream_call('(&%s->vf_base)' % self.paren(r), name, args, n, want)
            ln = self.p.lowered_name(self.tu, decl)
            cargs = self.lower_args(decl, args, n)
            if decl.get('storageClass') == 'static':
                return self.finish_call(ln, cargs, rt, want, into, n)
            return self.finish_call(ln, [r] + cargs, rt, want, into, n)
        if rcv_t.kind == 'stream':
            return self.stream_call(rcv(), name, args, n, want)
        if rcv_t.kind == 'string':
            return self.string_call(rcv(), name, args, n, want, into)
        if rcv_t.kind == 'vec':
            return self.vec_call(rcv(), rcv_t, name, args, n, want, into)
        if rcv_t.kind == 'spos':
            if name.startswith('operator'):
                # conversion to streamoff
                return '((long)(%s))' % (self.rv(base) if not m.get('isArrow') else '*' + self.rv(base))
            self.unsupported('streampos member %s' % name, n)
        if rcv_t.kind == 'sstream':
            r = rcv()
            if name == 'str' and not args:
                if want == 'into':
                    self.emit('vf_sstream_str(%s, %s);' % (into, r))
                    return ''
                v = self.tmp()
                self.emit('vf_string %s; vf_sstream_str(&%s, %s);' % (v, v, r))
                return '(&%s)' % v
            if name == 'operator<<' and len(args) == 1:
                at = self.ty(args[0])
                if at.kind == 'scalar' and at.c == 'size_t':
                    self.emit('vf_sstream_put_ulong(%s, %s);' % (r, self.rv(args[0])))
                    return r
            self.unsupported('stringstream member %s' % name, n)
        self.unsupported('member call %s on %s' % (name, rcv_t.kind), n)

    def peel_base(self, b):
        while b.get('kind') == 'ImplicitCastExpr' and b.get('castKind') in ('UncheckedDerivedToBase', 'DerivedToBase',
                                                                              'NoOp'):
            b = b['inner'][0]
        return b

    def stream_call(self, r, name, args, n, want):
        if name == 'write' and len(args) == 2:
            a0, a1 = self.rv(args[0]), self.rv(args[1])
            # call-site obligation (C13/C14): the n bytes handed to ostream::write lie inside one object
            self.emit('VF_CHECK_WRITE_SRC(%s, (long)(%s));' % (a0, a1))
            self.emit('vf_stream_write(%s, %s, (long)(%s));' % (r, a0, a1))
            return r
        if name == 'read' and len(args) == 2:
            a0, a1 = self.rv(args[0]), self.rv(args[1])
            self.emit('VF_CHECK_READ_DST(%s, (long)(%s));' % (a0, a1))
            self.emit('vf_stream_read(%s, %s, (long)(%s));' % (r, a0, a1))
            return r
        if name == 'tellg' and not args:
            v = self.tmp()
            self.emit('vf_spos %s = vf_stream_tellg(%s);' % (v, r))
            return v
        if name == 'seekg' and len(args) == 1:
            self.emit('vf_stream_seekg_pos(%s, %s);' % (r, self.rv(args[0])))
            return r
        if name == 'seekg' and len(args) == 2:
            self.emit('vf_stream_seekg_off(%s, (long)(%s), %s);' % (r, self.rv(args[0]), self.rv(args[1])))
            return r
        if name in ('eof', 'is_open', 'fail') and not args:
            v = self.tmp()
            self.emit('_Bool %s = vf_stream_%s(%s);' % (v, name, r))
            return v
        if name == 'close' and not args:
            self.emit('vf_stream_close(%s);' % r)
            return ''
        self.unsupported('std::fstream member %s/%d' % (name, len(args)), n)

    def explicit_args(self, args):
        return [a for a in args if self.strip(a).get('kind') != 'CXXDefaultArgExpr']

    def string_call(self, r, name, args, n, want, into):
        args = self.explicit_args(args)
        if name == 'empty' and not args:
            return '(%s->size == 0)' % self.paren(r)
        if name == 'clear' and not args:
            self.emit('vf_string_clear(%s);' % r)
            return ''
        if name == 'back' and not args:
            return 'VF_STR_IDX(%s, %s->size - 1)' % (r, self.paren(r))
        if name == 'find_last_not_of' and len(args) == 1 and self.ty(args[0]).kind == 'scalar':
            v = self.tmp()
            self.emit('size_t %s = vf_string_find_last_not_of_char(%s, (char)(%s));' % (v, r, self.rv(args[0])))
            return v
        if name == 'erase' and len(args) == 1 and self.ty(args[0]).kind == 'scalar':
            self.emit('vf_string_erase_from(%s, %s);' % (r, self.rv(args[0])))
            self.check_exc()
            return r
        if name in ('size', 'length') and not args:
            return '%s->size' % self.paren(r)
        if name == 'c_str' and not args:
            return '((const char *)%s->data)' % self.paren(r)
        if name == 'compare' and len(args) == 1:
            at = self.ty(self.strip(args[0]))
            v = self.tmp()
            if at.kind == 'string':
                self.emit('int %s = vf_string_compare(%s, %s);' % (v, r, self.obj(args[0])))
            else:
                s = self.strip(args[0])
                while s.get('kind') == 'ImplicitCastExpr':
                    s = self.strip(s['inner'][0])
                if s.get('kind') != 'StringLiteral':
                    self.unsupported('compare with non-literal char*', n)
                self.emit('int %s = vf_string_compare_lit(%s, %s, %d);' % (v, r, s['value'], self.lit_len(s['value'])))
            return v
        if name == 'pop_back' and not args:
            self.emit('vf_string_pop_back(%s);' % r)
            return ''
        if name == 'assign' and len(args) == 1 and self.ty(self.strip(args[0])).kind == 'string':
            self.emit('vf_string_assign(%s, %s);' % (r, self.obj(args[0])))
            return r
        self.unsupported('std::string member %s/%d' % (name, len(args)), n)

    def vec_call(self, r, vt, name, args, n, want, into):
        tag = vt.elem.tag()
        rp = self.paren(r)
        args = self.explicit_args(args)
        if name == 'data' and not args and vt.elem.kind == 'scalar':
            return '(%s->data)' % rp
        if name == 'size' and not args:
            return '%s->size' % rp
        if name == 'empty' and not args:
            return '(%s->size == 0)' % rp
        if name == 'clear' and not args:
            self.emit('vf_vec_%s_clear(%s);' % (tag, r))
            return ''
        if name == 'reserve' and len(args) == 1:
            s_ = self.rv(args[0], discard=True)     # capacity is not modelled (growth always reallocates)
            if s_:
                self.emit('(void)(%s);' % s_)
            return ''
        if name in ('back', 'front') and not args:
            el = 'VF_VEC_IDX(%s, %s)' % (r, ('%s->size - 1' % rp) if name == 'back' else '0')
            if vt.elem.is_obj() or want == 'obj':
                return '(&%s)' % el
            return el
        if name == 'resize' and len(args) == 2:
            if vt.elem.is_obj():
                self.emit('vf_vec_%s_resize_fill(%s, %s, %s);' % (tag, r, self.rv(args[0]), self.obj(args[1])))
                if vt.elem.kind == 'class':
                    self.check_exc()
            else:
                self.emit('vf_vec_%s_resize_fill(%s, %s, %s);' % (tag, r, self.rv(args[0]), self.rv(args[1])))
            return ''
        if name == 'at' and len(args) == 1:
            i = self.rv(args[0])
            iv = self.tmp()
            self.emit('size_t %s = %s;' % (iv, i))
            self.emit('if (!(%s < %s->size)) { vf_exc = VF_EXC_out_of_range; goto %s; }' % (iv, rp, self.handlers[-1]))
            self.exits_via_unwind = True
            el = '%s->data[%s]' % (rp, iv)
            if vt.elem.is_obj() or want == 'obj':
                return '(&%s)' % el
            return el
        if name == 'push_back' and len(args) == 1:
            self.vec_push(r, vt, args[0])
            return ''
        if name == 'resize' and len(args) == 1:
            self.emit('vf_vec_%s_resize(%s, %s);' % (tag, r, self.rv(args[0])))
            if vt.elem.kind == 'class':
                self.check_exc()
            return ''
        if name == 'insert' and len(args) == 2:
            it = self.strip(args[0])
            while it.get('kind') in ('CXXConstructExpr', 'ImplicitCastExpr', 'CXXFunctionalCastExpr'):
                it = self.strip(it['inner'][0])
            okb = it.get('kind') == 'CXXMemberCallExpr' and it['inner'][0].get('name') == 'begin'
            if not okb:
                self.unsupported('vector::insert at a position other than begin()', n)
            # the receiver of begin() must be the same vector expression (checked textually)
            mark = len(self.lines)
            r2 = self.obj(it['inner'][0]['inner'][0])
            if r2 != r or len(self.lines) != mark:
                self.unsupported('vector::insert(begin()) on a different vector', n)
            if vt.elem.is_obj():
                self.emit('vf_vec_%s_insert_front(%s, %s);' % (tag, r, self.obj(args[1])))
            else:
                self.emit('vf_vec_%s_insert_front(%s, %s);' % (tag, r, self.rv(args[1])))
            return ''
        if name == 'erase' and len(args) == 1:
            # v.erase(v.begin() [+ k]): recognised as a whole idiom (iterators are not modelled); the returned iterator must
            # be unused.  Mapped to vf_vec_<T>_erase_at(v, k), generated next to the vector model of that element type.
            # (an iterator has no lowered type: any use of the result stops the extraction where it is bound)
            it = self.strip(args[0])
            while it.get('kind') in ('CXXConstructExpr', 'ImplicitCastExpr', 'CXXFunctionalCastExpr'):
                it = self.strip(it['inner'][0])
            off = None
            if it.get('kind') == 'CXXOperatorCallExpr' and self.callee_decl_ref(it)['referencedDecl']['name'] == 'operator+':
                off = it['inner'][2]
                it = self.strip(it['inner'][1])
                while it.get('kind') in ('CXXConstructExpr', 'ImplicitCastExpr', 'CXXFunctionalCastExpr'):
                    it = self.strip(it['inner'][0])
            okb = it.get('kind') == 'CXXMemberCallExpr' and it['inner'][0].get('name') == 'begin'
            if not okb:
                self.unsupported('vector::erase at a position other than begin() [+ k]', n)
            mark = len(self.lines)
            r2 = self.obj(it['inner'][0]['inner'][0])
            if r2 != r or len(self.lines) != mark:
                self.unsupported('vector::erase(begin() + k) on a different vector', n)
            k = self.rv(off) if off is not None else '0'
            self.p.erase_tags.add((tag, vt.elem.ctype(), vt.elem.is_obj() and vt.elem.kind == 'class'))
            self.emit('vf_vec_%s_erase_at(%s, (size_t)(%s));' % (tag, r, k))
            if vt.elem.kind == 'class':
                self.check_exc()
            return ''
        self.unsupported('std::vector member %s/%d' % (name, len(args)), n)

    def operator_call(self, n, want, into, discard):
        c = self.callee_decl_ref(n)
        rd = c['referencedDecl']
        op = rd['name']
        args = n['inner'][1:]
        a0 = args[0]
        if self.ty(self.strip(a0)).kind == 'other':
            a0 = self.peel_base(self.strip(a0))
            args = [a0] + args[1:]
        t0 = self.ty(self.strip(a0))
        if t0.kind == 'other':
            t0 = self.ty(a0)
        if t0.kind == 'sptr':
            if op == 'operator=':
                l = self.lv(a0)
                self.emit('%s = %s;' % (l, self.rv(args[1])))
                return l
            if op == 'operator*':
                return self.rv(a0)          # pointer to the pointee == obj of the result
            if op == 'operator->':
                return self.rv(a0)
            if op == 'operator!=' or op == 'operator==':
                return '(%s %s %s)' % (self.rv(a0), op[8:], self.rv(args[1]))
            self.unsupported('shared_ptr %s' % op, n)
        if t0.kind == 'spos':
            if op == 'operator-' and len(args) == 2:
                t1 = self.ty(self.strip(args[1]))
                return '((long)(%s) - (long)(%s))' % (self.rv(a0), self.rv(args[1]))
            if op in ('operator!=', 'operator==') and len(args) == 2:
                return '((long)(%s) %s (long)(%s))' % (self.rv(a0), op[8:], self.rv(args[1]))
            if op == 'operator=':
                l = self.lv(a0)
                self.emit('%s = %s;' % (l, self.rv(args[1])))
                return l
            self.unsupported('streampos %s' % op, n)
        if t0.kind == 'scalar' and op == 'operator|':
            return '(%s | %s)' % (self.rv(a0), self.rv(args[1]))
        if t0.kind == 'string':
            r = self.obj(a0)
            if op == 'operator=' and len(args) == 2:
                self.emit('vf_string_assign(%s, %s);' % (r, self.obj(args[1])))
                return r
            if op == 'operator+=' and len(args) == 2 and self.ty(self.strip(args[1])).kind == 'string':
                self.emit('vf_string_append(%s, %s);' % (r, self.obj(args[1])))
                return r
            if op == 'operator[]' and len(args) == 2:
                return 'VF_STR_IDX(%s, %s)' % (r, self.rv(args[1]))
            self.unsupported('std::string %s' % op, n)
        if t0.kind == 'vec':
            r = self.obj(a0)
            tag = t0.elem.tag()
            if op == 'operator[]' and len(args) == 2:
                el = 'VF_VEC_IDX(%s, %s)' % (r, self.rv(args[1]))
                if t0.elem.is_obj() or want == 'obj':
                    return '(&%s)' % el
                return el
            if op == 'operator=' and len(args) == 2:
                s1 = self.as_ilist(args[1])
                if s1 is not None:
                    self.emit('vf_vec_%s_clear(%s);' % (tag, r))
                    self.ilist_push(r, t0, s1)
                    return r
                self.emit('vf_vec_%s_assign(%s, %s);' % (tag, r, self.obj(args[1])))
                if t0.elem.kind == 'class':
                    self.check_exc()
                return r
            self.unsupported('std::vector %s' % op, n)
        if t0.kind == 'class':
            if op == 'operator=' and len(args) == 2:
                decl = self.tu.by_id.get(rd['id'])
                if decl is not None and not decl.get('isImplicit'):
                    self.unsupported('user-defined operator=', n)
                r = self.obj(a0)
                self.emit('%s__assign(%s, %s);' % (t0.c, r, self.obj(args[1])))
                self.check_exc()
                return r
            self.unsupported('%s on class %s' % (op, t0.c), n)
        if t0.kind == 'sstream':
            r = self.obj(a0)
            if op == 'operator<<' and len(args) == 2:
                s = self.strip(args[1])
                while s.get('kind') == 'ImplicitCastExpr':
                    s = self.strip(s['inner'][0])
                if s.get('kind') == 'StringLiteral':
                    self.emit('vf_sstream_put_lit(%s, %s, %d);' % (r, s['value'], self.lit_len(s['value'])))
                    return r
                at = self.ty(args[1])
                if at.kind == 'scalar' and at.c == 'size_t':
                    self.emit('vf_sstream_put_ulong(%s, %s);' % (r, self.rv(args[1])))
                    return r
            self.unsupported('stringstream %s' % op, n)
        self.unsupported('operator %s on %s (%s)' % (op, t0.kind, a0.get('type', {}).get('qualType')), n)


# ------------------------------------------------------------------ whole-program emission

VEC_ELEMS_ORDER = ['float', 'int', 'size_t', 'string', 'Point', 'Channel', 'SubFrame', 'Parameter', 'Group', 'Frame']


class Emitter:
    def __init__(self, repo, loop_contracts=None):
        self.prog = Program(repo)
        self.loop_contracts = loop_contracts or {}

    def class_order(self):
        """Order classes so that by-value members are defined first."""
        p = self.prog
        deps = {}
        for cname, rec in p.classes.items():
            d = set()
            for f in rec.get('inner', []):
                if f.get('kind') == 'FieldDecl':
                    t = p.ty(f['type'])
                    self._deps(t, d)
            deps[cname] = d
        order, done = [], set()

        def visit(c, stack=()):
            if c in done:
                return
            if c in stack:
                raise ExtractionError('EXTRACTION-UNSUPPORTED recursive by-value class layout %s' % c)
            for d in sorted(deps.get(c, ())):
                visit(d, stack + (c,))
            done.add(c)
            order.append(c)
        for c in sorted(deps):
            visit(c)
        return order

    def _deps(self, t, d):
        if t.kind == 'class':
            d.add(t.c)
        elif t.kind == 'vec':
            self._deps(t.elem, d)

    def fields(self, cname):
        rec = self.prog.classes[cname]
        return [(f['name'], self.prog.ty(f['type'])) for f in rec.get('inner', []) if f.get('kind') == 'FieldDecl']

    def has_base_stream(self, cname):
        rec = self.prog.classes[cname]
        for b in rec.get('bases', []):
            bt = self.prog.ty(b['type'])
            if bt.kind == 'stream':
                return True
            raise ExtractionError('EXTRACTION-UNSUPPORTED base class %s of %s' % (b['type'].get('qualType'), cname))
        return False

    def user_special(self, cname, which):
        """Return the user-declared copy ctor / copy assignment / default ctor node, if any."""
        rec = self.prog.classes[cname]
        for c in rec.get('inner', []):
            if c.get('isImplicit'):
                continue
            if which == 'copy_ctor' and c.get('kind') == 'CXXConstructorDecl':
                ps = [x for x in c.get('inner', []) if x.get('kind') == 'ParmVarDecl']
                if len(ps) == 1:
                    t = self.prog.ty(ps[0]['type'])
                    if t.kind == 'class' and t.c == cname and t.ref:
                        return c
            if which == 'assign' and c.get('kind') == 'CXXMethodDecl' and c.get('name') == 'operator=':
                return c
            if which == 'default_ctor' and c.get('kind') == 'CXXConstructorDecl':
                ps = [x for x in c.get('inner', []) if x.get('kind') == 'ParmVarDecl']
                if all(x.get('inner') for x in ps):     # every parameter has a default
                    return c
        return None

    def emit(self):
        p = self.prog
        out = []
        w = out.append
        w('/* GENERATED by extract/lower.py from the clang AST of the C++ sources under %s/src - do not edit */' % p.repo)
        w('#ifndef VF_LOW_H')
        w('#define VF_LOW_H')
        w('#include "vf_std.h"')
        order = self.class_order()
        for c in order:
            w('struct %s;' % c)
        # vector instantiations needed
        vec_elems = []

        def need_vec(t):
            if t.kind == 'vec':
                need_vec(t.elem)
                if t.elem.tag() not in [x.tag() for x in vec_elems]:
                    vec_elems.append(t.elem)
        for c in order:
            for _, t in self.fields(c):
                need_vec(t)
        # locals/params may use vectors not used as fields
        for tag in ('float', 'int', 'size_t'):
            need_vec(Ty('vec', elem=Ty('scalar', tag)))
        need_vec(Ty('vec', elem=Ty('string')))
        need_vec(Ty('vec', elem=Ty('class', 'Frame')))
        emitted_vec = set()

        def emit_vec_decl(t):
            tag = t.tag()
            if tag in emitted_vec:
                return
            emitted_vec.add(tag)
            w('VF_VEC_DECLARE_%s(%s, %s)' % ('O' if t.is_obj() else 'S', tag, t.ctype()))
        for t in vec_elems:
            if not t.kind == 'class':
                emit_vec_decl(t)
        for c in order:
            # a vector of a class needs only the incomplete type for its declaration (pointer member)
            pass
        for t in vec_elems:
            if t.kind == 'class':
                emit_vec_decl(t)
        for c in order:
            w('struct %s {' % c)
            if self.has_base_stream(c):
                w('  vf_stream vf_base;')
            for name, t in self.fields(c):
                if t.kind == 'other':
                    raise ExtractionError('EXTRACTION-UNSUPPORTED field type %s in %s' % (t.c, c))
                w('  %s %s;' % (t.ctype(), name))
            w('};')
        # lower every function first (collect signatures)
        bodies, sigs = [], []
        for ln in p.order:
            tu, node = p.defs[ln]
            f = Fn(p, tu, node, ln, self.loop_contracts)
            text = f.lower()
            bodies.append(text)
            sigs.append(f.sig + ';')
        for c in order:
            w('void %s__copy_ctor(struct %s *self, const struct %s *o);' % (c, c, c))
            w('void %s__assign(struct %s *self, const struct %s *o);' % (c, c, c))
            w('void %s__default_ctor(struct %s *self);' % (c, c))
        for s in sigs:
            w(s)
        w('#endif')
        header = '\n'.join(out) + '\n'
        del out[:]
        w('/* GENERATED by extract/lower.py - do not edit */')
        w('#include "low.h"')
        for st in p.statics:
            w(st)
        # special members
        for c in order:
            self.emit_specials(c, w)
        for t in vec_elems:
            if t.is_obj():
                w('VF_VEC_DEFINE_O(%s, %s, %s, %s, %s)' % (t.tag(), t.ctype(), self.vec_hook(t, 'INIT'),
                                                            self.vec_hook(t, 'COPY'), self.vec_hook(t, 'RELOC')))
            else:
                w('VF_VEC_DEFINE_S(%s, %s)' % (t.tag(), t.ctype()))
        # vector::erase(begin() + k), emitted only for the element types a translation unit erases from (the pinned tree
        # has none): elements after k move down by assignment (class elements: the lowered operator=), the size drops by one
        for tag, cty, iscls in sorted(getattr(p, 'erase_tags', ())):
            w('void vf_vec_%s_erase_at(vf_vec_%s *v, size_t k)' % (tag, tag))
            w('{')
            w('  __CPROVER_assert(k < v->size, "std::vector::erase position within [begin, end)");')
            w('  for (size_t i = k; i + 1 < v->size; ++i)')
            if iscls:
                w('    %s__assign(&v->data[i], &v->data[i + 1]);' % cty.replace('struct ', ''))
            else:
                w('    v->data[i] = v->data[i + 1];')
            w('  v->size = v->size - 1;')
            w('}')
        for b in bodies:
            w(b)
        unknown = set(self.loop_contracts) - set(p.order)
        if unknown:
            raise ExtractionError('EXTRACTION-UNSUPPORTED loop contracts for unknown functions %s' % sorted(unknown))
        self.functions = list(p.order)
        return header, '\n'.join(out) + '\n'

    def vec_hook(self, t, which):
        """Names of the element hooks used by the vector model: default-init, copy, relocate."""
        if t.kind == 'scalar':
            return {'INIT': 'VF_EL_ZERO', 'COPY': 'VF_EL_ASSIGN', 'RELOC': 'VF_EL_ASSIGN'}[which]
        if t.kind == 'string':
            return {'INIT': 'vf_string_ctor', 'COPY': 'vf_string_ctor_copy', 'RELOC': 'VF_EL_ASSIGN'}[which]
        if t.kind == 'class':
            if which == 'INIT':
                return '%s__default_ctor' % t.c
            if which == 'COPY':
                return '%s__copy_ctor' % t.c
            # relocation on growth: a class with a user-declared copy constructor has no implicit move
            # constructor, so libstdc++ copies it through that constructor; otherwise the implicit move
            # constructor transfers the members, which the model renders as a shallow struct copy.
            return '%s__copy_ctor' % t.c if self.user_special(t.c, 'copy_ctor') is not None else 'VF_EL_ASSIGN'
        raise ExtractionError('EXTRACTION-UNSUPPORTED vector element %s' % t.kind)

    def emit_specials(self, c, w):
        p = self.prog
        tu = p.class_tu[c]
        fields = self.fields(c)
        has_base = self.has_base_stream(c)
        # copy constructor
        uc = self.user_special(c, 'copy_ctor')
        w('void %s__copy_ctor(struct %s *self, const struct %s *o) {' % (c, c, c))
        if uc is not None:
            w('  %s(self, o);' % p.lowered_name(tu, uc))
        elif has_base:
            w('  __CPROVER_assert(0, "copy of a stream-derived object is ill-formed");')
        else:
            for name, t in fields:
                w('  ' + self.member_copy('self->' + name, 'o->' + name, t, True))
        w('}')
        ua = self.user_special(c, 'assign')
        if ua is not None:
            raise ExtractionError('EXTRACTION-UNSUPPORTED user-defined operator= in %s' % c)
        w('void %s__assign(struct %s *self, const struct %s *o) {' % (c, c, c))
        if has_base:
            w('  __CPROVER_assert(0, "assignment of a stream-derived object is ill-formed");')
        else:
            for name, t in fields:
                w('  ' + self.member_copy('self->' + name, 'o->' + name, t, False))
        w('}')
        ud = self.user_special(c, 'default_ctor')
        w('void %s__default_ctor(struct %s *self) {' % (c, c))
        if ud is not None:
            # call with every default argument materialised
            ps = [x for x in ud.get('inner', []) if x.get('kind') == 'ParmVarDecl']
            f = Fn(p, tu, {'kind': 'FunctionDecl', 'type': {'qualType': 'void ()'}, 'inner': [], 'id': '0', 'name': ''},
                   '%s__default_ctor' % c, {})
            f.rt = Ty('void')
            fake_args = []
            for i, x in enumerate(ps):
                fake_args.append({'kind': 'CXXDefaultArgExpr', 'type': x['type'], '_default': x['inner'][0],
                                  'valueCategory': 'lvalue'})
            cargs = f.lower_args(ud, fake_args, ud)
            for l in f.lines:
                w('  ' + l)
            w('  %s(%s);' % (p.lowered_name(tu, ud), ', '.join(['self'] + cargs)))
        else:
            any_ctor = [x for x in p.classes[c].get('inner', [])
                        if x.get('kind') == 'CXXConstructorDecl' and not x.get('isImplicit')]
            if any_ctor:
                w('  __CPROVER_assert(0, "%s has no default constructor");' % c)
            else:
                for name, t in fields:
                    if t.is_obj():
                        w('  ' + self.member_default('self->' + name, t))
        w('}')

    def member_copy(self, dst, src, t, ctor):
        if t.kind == 'string':
            return '%s(&%s, &%s);' % ('vf_string_ctor_copy' if ctor else 'vf_string_assign', dst, src)
        if t.kind == 'vec':
            return 'vf_vec_%s_%s(&%s, &%s);' % (t.elem.tag(), 'ctor_copy' if ctor else 'assign', dst, src)
        if t.kind == 'class':
            return '%s__%s(&%s, &%s);' % (t.c, 'copy_ctor' if ctor else 'assign', dst, src)
        if t.kind in ('scalar', 'sptr', 'spos', 'ptr'):
            return '%s = %s;' % (dst, src)
        raise ExtractionError('EXTRACTION-UNSUPPORTED member copy of %s' % t.kind)

    def member_default(self, dst, t):
        if t.kind == 'string':
            return 'vf_string_ctor(&%s);' % dst
        if t.kind == 'vec':
            return 'vf_vec_%s_ctor(&%s);' % (t.elem.tag(), dst)
        if t.kind == 'class':
            return '%s__default_ctor(&%s);' % (t.c, dst)
        raise ExtractionError('EXTRACTION-UNSUPPORTED member default of %s' % t.kind)


def main():
    import argparse
    ap = argparse.ArgumentParser()
    ap.add_argument('--repo', default='/repo')
    ap.add_argument('--loops', default=None, help='JSON: {lowered function: {loop ordinal: [contract clause, ...]}}')
    ap.add_argument('-o', '--out', required=True, help='output directory (low.h, low.c)')
    ap.add_argument('--list', action='store_true')
    a = ap.parse_args()
    lc = {}
    if a.loops:
        lc = json.load(open(a.loops))
    try:
        em = Emitter(a.repo, lc)
        header, text = em.emit()
    except ExtractionError as e:
        sys.stderr.write(str(e) + '\n')
        sys.exit(2)
    os.makedirs(a.out, exist_ok=True)
    with open(os.path.join(a.out, 'low.h'), 'w') as f:
        f.write(header)
    with open(os.path.join(a.out, 'low.c'), 'w') as f:
        f.write(text)
    if a.list:
        for ln in em.prog.order:
            print(ln)


if __name__ == '__main__':
    main()
