#!/bin/bash
# usage: seed_run.sh <seed id> <property> [more properties...]  - applies the seeded change to /repo, runs the quick
# checks of the given properties, and restores /repo.  (Seeded changes are never committed in /repo.)
id=$1; shift
cd /verif
git -C /repo diff --quiet || { echo "/repo has local changes"; exit 2; }
git -C /repo apply /verif/seeded/$id/patch.diff || exit 2
trap 'git -C /repo checkout -- .' EXIT
for p in "$@"; do
  VF_NO_EVIDENCE=1 python3 vf.py check $p --tier ${TIER:-quick} 2>&1 | grep -v "^KNOWN-FINDING" | tail -4 | cut -c1-300
  echo "  -> $id on $p exit=${PIPESTATUS[0]}"
done
