#!/bin/bash
# usage: seed_run.sh <seed id> <property> [more properties...]
# Runs the quick checks of the given properties against a scratch copy of /repo's sources with the seeded change
# applied (VF_REPO); /repo itself is not touched.  Evidence files are not rewritten (VF_NO_EVIDENCE).
id=$1; shift
W=/var/tmp/seedrepo_$id
rm -rf $W; mkdir -p $W; cp -r /repo/src /repo/include $W/
(cd $W && git init -q . && git apply /verif/seeded/$id/patch.diff) || { echo "$id: patch does not apply"; rm -rf $W; exit 2; }
cd /verif
for p in "$@"; do
  VF_REPO=$W VF_NO_EVIDENCE=1 python3 vf.py check $p --tier ${TIER:-quick} 2>&1 | grep -v "^KNOWN-FINDING" | tail -4 | cut -c1-330
  echo "  -> $id on $p exit=${PIPESTATUS[0]}"
done
rm -rf $W
