#!/bin/bash
# usage: seed_unit_bg.sh <seed id> <unit> - runs one unit against a scratch copy of /repo with the seed applied (does not touch /repo)
id=$1; unit=$2
W=/var/tmp/seedrepo_${id}_$unit
rm -rf $W; mkdir -p $W; cp -r /repo/src /repo/include $W/; (cd $W && git init -q . && git apply /verif/seeded/$id/patch.diff) || exit 2
cd /verif && VF_REPO=$W timeout 2400 python3 vf.py unit $unit 2>&1 | grep "FAILURE\|^unit" | cut -c1-220 > /tmp/seedunit_${id}_$unit.log
rm -rf $W
