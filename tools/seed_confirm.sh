#!/bin/bash
# usage: seed_confirm.sh <seed dir with patch.diff + demo.cpp>  - confirms a seeded change in a scratch worktree:
#   tests pass with the change, demo passes without it and fails with it.  Prints a one-line verdict.
set -u
S=$1; id=$(basename $S)
W=/tmp/seedconf_$id
git -C /repo worktree remove --force $W >/dev/null 2>&1; rm -rf $W
git -C /repo worktree add -q $W HEAD || exit 2
rm -rf $W/external/gtest && cp -r /repo/external/gtest $W/external/gtest
res=""
( cd $W && g++ -std=c++11 -I$W/include $S/demo.cpp $W/src/*.cpp -o $W/demo_orig 2>$W/demo_orig.log && ./demo_orig >$W/demo_orig.out 2>&1 ); r0=$?
( cd $W && git apply $S/patch.diff ) || { echo "$id: PATCH DOES NOT APPLY"; git -C /repo worktree remove --force $W; exit 1; }
( cd $W && cmake -G Ninja -S . -B _b -DBUILD_TESTS=ON -DCMAKE_BUILD_TYPE=RelWithDebInfo >/dev/null 2>&1 && cmake --build _b >$W/build.log 2>&1 && cd _b && ./runUnitTests >$W/tests.log 2>&1 ); rt=$?
( cd $W && g++ -std=c++11 -I$W/include $S/demo.cpp $W/src/*.cpp -o $W/demo_mut 2>$W/demo_mut.log && ./demo_mut >$W/demo_mut.out 2>&1 ); r1=$?
echo "$id: demo_without_change=$r0 tests_with_change=$rt ($(grep -c '\[       OK \]' $W/tests.log 2>/dev/null) ok) demo_with_change=$r1 => $([ $r0 = 0 ] && [ $rt = 0 ] && [ $r1 != 0 ] && echo CONFIRMED || echo NOT-CONFIRMED)"
tail -2 $W/demo_mut.out 2>/dev/null | sed 's/^/    /'
git -C /repo worktree remove --force $W
