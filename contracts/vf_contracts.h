/* Common definitions for the contract sources (contracts/*.c). */
#ifndef VF_CONTRACTS_H
#define VF_CONTRACTS_H
#include "low.h"

/* CBMC's built-in checks stay enabled in the lowered library code and in the std model (compiled separately);
 * they are switched off inside the contract sources: a dereference check on every sub-expression of every
 * clause multiplies the query size (probe: Data::frame 121 s / out of memory with them, 2.4 s without) and adds
 * nothing: a clause that reads through an invalid pointer reads a nondeterministic value and cannot be proved. */
#pragma CPROVER check push
#pragma CPROVER check disable "pointer"
#pragma CPROVER check disable "bounds"
#pragma CPROVER check disable "pointer-overflow"
#pragma CPROVER check disable "pointer-primitive"
#pragma CPROVER check disable "signed-overflow"

#pragma CPROVER check disable "conversion"
#pragma CPROVER check disable "undefined-shift"
#pragma CPROVER check disable "div-by-zero"

/* ghost indices: left unconstrained by every harness, so a clause stated at vf_gk holds for every index */
/* one ghost index per container kind, used consistently by every contract:
 *   vf_gf stored frames        vf_gj points of a frame / channels of a sub-frame   vf_gk sub-frames of a frame
 *   vf_gb byte offset in an output stream   vf_gc characters of a string   vf_gg groups   vf_gp parameters of a group   vf_gd dimensions   vf_gv values */
extern size_t vf_gk, vf_gj, vf_gc, vf_gf, vf_gg, vf_gp, vf_gd, vf_gv, vf_gn, vf_gf2, vf_gb, vf_gb2;
#define VF_GHOSTS size_t vf_gk, vf_gj, vf_gc, vf_gf, vf_gg, vf_gp, vf_gd, vf_gv, vf_gn, vf_gf2, vf_gb, vf_gb2;

/* container sizes are capped so that element addresses stay inside CBMC's 55-bit offsets; 10^5 is far above
 * anything the format can carry (65535 frames, 255 points, 255 parameters) */
/* ghost state of the allocation model (not library state): written by every new / new[] */
#ifdef VF_TRACK_ALLOC
#define VF_GHOST_ALLOC , vf_trk_ptr, vf_trk_kind, vf_max_alloc
#else
#define VF_GHOST_ALLOC
#endif

#define VF_MAXN ((size_t)100000)
#define VF_MAXSTR ((size_t)4096)
#define VF_MAXFILE ((size_t)1 << 24) /* file images up to 16 MiB (a C3D file addresses at most 255 blocks of parameters) */

/* little-endian reading of bytes as the C3D specification defines them */
#define VF_U8(p, o) ((unsigned)(unsigned char)(p)[(o)])
#define VF_U16(p, o) (VF_U8(p, o) | (VF_U8(p, (o) + 1) << 8))
#define VF_U32(p, o) (VF_U8(p, o) | (VF_U8(p, (o) + 1) << 8) | (VF_U8(p, (o) + 2) << 16) | (VF_U8(p, (o) + 3) << 24))


/* object representation of a float, for bit-exact comparisons (NaN payloads, -0.0) */
static inline unsigned vf_bits_of(float f)
{
  union { float f; unsigned u; } c;
  c.f = f;
  return c.u;
}
#define VF_FBITS(lv) vf_bits_of(lv)

#endif
