/* Common definitions for the contract sources (contracts/*.c). */
#ifndef VF_CONTRACTS_H
#define VF_CONTRACTS_H
#include "low.h"

/* ghost indices: left unconstrained by every harness, so a clause stated at vf_gk holds for every index */
extern size_t vf_gk, vf_gj, vf_gc;

/* container sizes are capped so that element addresses stay inside CBMC's 55-bit offsets; 10^5 is far above
 * anything the format can carry (65535 frames, 255 points, 255 parameters) */
/* ghost state of the allocation model (not library state): written by every new / new[] */
#define VF_GHOST_ALLOC vf_trk_ptr, vf_trk_kind, vf_max_alloc

#define VF_MAXN ((size_t)100000)
#define VF_MAXSTR ((size_t)4096)

/* little-endian reading of bytes as the C3D specification defines them */
#define VF_U8(p, o) ((unsigned)(unsigned char)(p)[(o)])
#define VF_U16(p, o) (VF_U8(p, o) | (VF_U8(p, (o) + 1) << 8))
#define VF_U32(p, o) (VF_U8(p, o) | (VF_U8(p, (o) + 1) << 8) | (VF_U8(p, (o) + 2) << 16) | (VF_U8(p, (o) + 3) << 24))


/* object representation of a float, for bit-exact comparisons (NaN payloads, -0.0) */
static inline unsigned vf_bits_of(float f)
{
  union { float f; unsigned u; } c;
  c.f = f;
  return c.u;
}
#define VF_FBITS(lv) vf_bits_of(lv)

#endif
