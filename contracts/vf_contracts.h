/* Common definitions for the contract sources (contracts/*.c). */
#ifndef VF_CONTRACTS_H
#define VF_CONTRACTS_H
#include "low.h"

/* ghost indices: left unconstrained by every harness, so a clause stated at vf_gk holds for every index */
extern size_t vf_gk, vf_gj;

/* container sizes are capped so that element addresses stay inside CBMC's 55-bit offsets; 10^5 is far above
 * anything the format can carry (65535 frames, 255 points, 255 parameters) */
#define VF_MAXN ((size_t)100000)
#define VF_MAXSTR ((size_t)4096)

/* little-endian reading of bytes as the C3D specification defines them */
#define VF_U8(p, o) ((unsigned)(unsigned char)(p)[(o)])
#define VF_U16(p, o) (VF_U8(p, o) | (VF_U8(p, (o) + 1) << 8))
#define VF_U32(p, o) (VF_U8(p, o) | (VF_U8(p, (o) + 1) << 8) | (VF_U8(p, (o) + 2) << 16) | (VF_U8(p, (o) + 3) << 24))

#endif
