/* Points::point(point, idx): append / replace / extend on the points of a frame (C06 C08 C10 C13).
 * vector<Point> growth relocates the existing points through Point(const Point&) (Point declares a copy
 * constructor, hence has no move constructor): the model contracts state the *required* meaning of that
 * constructor (every component kept - proved for the real constructor in unit Point_copy). */
#include "vf_harness.h"
VF_GHOSTS

#define G(i, v) ((i) < (v)->size ? (i) : 0)
#define OLD_F(v, i, k) __CPROVER_old((v)->data[G(i, v)]._data.data[k])
#define OLD_NSZ(v, i) __CPROVER_old((v)->data[G(i, v)]._name.size)
#define OLD_NCH(v, i) __CPROVER_old((v)->data[G(i, v)]._name.data[vf_gc])
#define PT_FRESH(p) (__CPROVER_is_fresh((p)._data.data, 4 * sizeof(float)) && (p)._data.size == 4)
#define PT_KEPT(p, v, i) (vf_bits_of((p)._data.data[0]) == vf_bits_of(OLD_F(v, i, 0)) && vf_bits_of((p)._data.data[1]) == vf_bits_of(OLD_F(v, i, 1)) && \
                          vf_bits_of((p)._data.data[2]) == vf_bits_of(OLD_F(v, i, 2)) && vf_bits_of((p)._data.data[3]) == vf_bits_of(OLD_F(v, i, 3)) && \
                          (p)._name.size == OLD_NSZ(v, i))
#define PT_DEFAULT(p) (PT_FRESH(p) && vf_bits_of((p)._data.data[0]) == 0 && vf_bits_of((p)._data.data[1]) == 0 && vf_bits_of((p)._data.data[2]) == 0 && \
                       vf_bits_of((p)._data.data[3]) == 0 && (p)._name.size == 0)
#define VECP_OK(v) ((v)->size <= VF_MAXN && __CPROVER_r_ok((v)->data, VF_VEC_BYTES(*(v), struct Point)) && \
                    (vf_gj < (v)->size ==> (VF_POINT_OK((v)->data[vf_gj]) && vf_gc < VF_MAXSTR)))

void contract_vf_vec_Point_push_back(vf_vec_Point *v, const struct Point *x)
__CPROVER_requires(v->size < VF_MAXN && __CPROVER_rw_ok(v, sizeof(*v)) && VECP_OK(v) && __CPROVER_r_ok(x, sizeof(*x)) && VF_POINT_OK(*x))
__CPROVER_assigns(v->data, v->size)
__CPROVER_frees(v->data)
__CPROVER_ensures(v->size == __CPROVER_old(v->size) + 1 && __CPROVER_is_fresh(v->data, v->size * sizeof(struct Point)))
__CPROVER_ensures(vf_gj < __CPROVER_old(v->size) ==> (PT_FRESH(v->data[vf_gj]) && __CPROVER_is_fresh(v->data[vf_gj]._name.data, v->data[vf_gj]._name.size + 1) &&
                                                        PT_KEPT(v->data[vf_gj], v, vf_gj)))
__CPROVER_ensures(PT_FRESH(v->data[v->size - 1]) && __CPROVER_is_fresh(v->data[v->size - 1]._name.data, x->_name.size + 1) &&
                  VF_POINT_EQ_AT(v->data[v->size - 1], *x, vf_gc));

void contract_vf_vec_Point_resize(vf_vec_Point *v, size_t n)
__CPROVER_requires(n <= VF_MAXN && __CPROVER_rw_ok(v, sizeof(*v)) && VECP_OK(v))
__CPROVER_assigns(v->data, v->size)
__CPROVER_frees(v->data)
__CPROVER_ensures(v->size == n)
__CPROVER_ensures(n > __CPROVER_old(v->size) ==> __CPROVER_is_fresh(v->data, n * sizeof(struct Point)))
__CPROVER_ensures(n <= __CPROVER_old(v->size) ==> __CPROVER_pointer_equals(v->data, __CPROVER_old(v->data)))
__CPROVER_ensures((n > __CPROVER_old(v->size) && vf_gj < __CPROVER_old(v->size)) ==>
                  (PT_FRESH(v->data[vf_gj]) && __CPROVER_is_fresh(v->data[vf_gj]._name.data, v->data[vf_gj]._name.size + 1) && PT_KEPT(v->data[vf_gj], v, vf_gj)))
__CPROVER_ensures((vf_gj >= __CPROVER_old(v->size) && vf_gj < n) ==>
                  (PT_DEFAULT(v->data[vf_gj]) && __CPROVER_is_fresh(v->data[vf_gj]._name.data, 1)))
/* the slot that is about to be assigned (second ghost): also a default point */
__CPROVER_ensures((vf_gf2 >= __CPROVER_old(v->size) && vf_gf2 < n && vf_gf2 != vf_gj) ==>
                  (PT_DEFAULT(v->data[vf_gf2]) && __CPROVER_is_fresh(v->data[vf_gf2]._name.data, 1)));

#define OLDN __CPROVER_old(self->_points.size)
#define TARGET (idx == SIZE_MAX ? OLDN : idx)
#define SP (&self->_points)
void contract_Points__point__Point_sz(struct Points *self, const struct Point *point, size_t idx)
__CPROVER_requires(vf_exc == 0 && __CPROVER_rw_ok(self, sizeof(*self)) && VECP_OK(SP) && self->_points.size < VF_MAXN &&
                   (idx == SIZE_MAX || idx < VF_MAXN) && __CPROVER_r_ok(point, sizeof(*point)) && VF_POINT_OK(*point) &&
                   (idx < self->_points.size ==> (VF_POINT_OK(self->_points.data[idx]) && idx == vf_gf2)))
__CPROVER_assigns(self->_points.data, self->_points.size, __CPROVER_object_whole(self->_points.data))
__CPROVER_frees(self->_points.data)
/*@ C06 : Points_point.append-grows-by-one */ __CPROVER_ensures(idx == SIZE_MAX ==> self->_points.size == OLDN + 1)
/*@ C06 : Points_point.replace-keeps-count */ __CPROVER_ensures(idx < OLDN ==> self->_points.size == OLDN)
/*@ C06 : Points_point.extend-to-index-plus-one */ __CPROVER_ensures((idx != SIZE_MAX && idx >= OLDN) ==> self->_points.size == idx + 1)
/*@ C06 C10 : Points_point.other-points-kept */
__CPROVER_ensures((vf_gj < OLDN && vf_gj != TARGET) ==> PT_KEPT(self->_points.data[vf_gj], SP, vf_gj))
/*@ C06 : Points_point.points-in-between-default */
__CPROVER_ensures((idx != SIZE_MAX && vf_gj >= OLDN && vf_gj < idx) ==>
                  (self->_points.data[vf_gj]._name.size == 0 && vf_bits_of(self->_points.data[vf_gj]._data.data[0]) == 0 && vf_bits_of(self->_points.data[vf_gj]._data.data[3]) == 0))
/*@ C06 C01 : Points_point.target-holds-the-given-point */
__CPROVER_ensures(VF_POINT_EQ_AT(self->_points.data[TARGET], *point, vf_gc))
/*@ C08 : Points_point.target-storage-not-shared */
__CPROVER_ensures(self->_points.data[TARGET]._data.data != point->_data.data && self->_points.data[TARGET]._name.data != point->_name.data)
/*@ C06 C10 : Points_point.nothrow */ __CPROVER_ensures(vf_exc == 0);

static struct Points *mk_points_for(size_t idx)
{
  struct Points *P = (struct Points *)vf_alloc(sizeof(*P));
  VF_MK_VEC(P->_points, struct Point);
  __CPROVER_assume(P->_points.size < VF_MAXN);
  if (vf_gj < P->_points.size)
    vf_mk_point(&P->_points.data[vf_gj]);
  if (idx < P->_points.size && idx != vf_gj)
    vf_mk_point(&P->_points.data[idx]);
  return P;
}

static void run_Points_point(int which)
{
  size_t idx;
  struct Points *self = mk_points_for(idx);
  if (which == 0)
    __CPROVER_assume(idx == SIZE_MAX);
  else if (which == 1)
    __CPROVER_assume(idx < self->_points.size && idx == vf_gf2);
  else
    __CPROVER_assume(idx != SIZE_MAX && idx >= self->_points.size && idx < VF_MAXN && idx == vf_gf2);
  __CPROVER_assume(vf_gc < VF_MAXSTR);
  struct Point *p = (struct Point *)vf_alloc(sizeof(*p));
  vf_mk_point(p);
  Points__point__Point_sz(self, p, idx);
  VF_CANARY();
}
void h_Points_point_append(void) { run_Points_point(0); }
void h_Points_point_replace(void) { run_Points_point(1); }
void h_Points_point_extend(void) { run_Points_point(2); }

/* Point's implicit copy assignment as the aliasing query needs it: it reads the argument's name and four floats */
void contract_shallow_Point__assign(struct Point *self, const struct Point *o)
__CPROVER_requires(vf_exc == 0 && __CPROVER_rw_ok(self, sizeof(*self)) && __CPROVER_r_ok(o, sizeof(*o)) &&
                   __CPROVER_r_ok(o->_data.data, 4 * sizeof(float)) && __CPROVER_r_ok(o->_name.data, o->_name.size + 1))
__CPROVER_assigns(self->_name.data, self->_name.size, self->_data.data, self->_data.size)
__CPROVER_ensures(vf_exc == 0 && self->_data.size == 4 && __CPROVER_is_fresh(self->_data.data, 4 * sizeof(float)));

/* Point(const Point&) as the aliasing query needs it (the full contract is proved in unit Point_copy) */
void contract_shallow_Point__ctor__Point(struct Point *self, const struct Point *p)
__CPROVER_requires(vf_exc == 0 && __CPROVER_rw_ok(self, sizeof(*self)) && __CPROVER_r_ok(p, sizeof(*p)) &&
                   __CPROVER_r_ok(p->_data.data, 4 * sizeof(float)) && __CPROVER_r_ok(p->_name.data, p->_name.size + 1))
__CPROVER_assigns(*self)
__CPROVER_ensures(vf_exc == 0 && self->_data.size == 4 && __CPROVER_is_fresh(self->_data.data, 4 * sizeof(float)) &&
                  self->_name.size == p->_name.size && __CPROVER_is_fresh(self->_name.data, self->_name.size + 1));

/* aliased argument (the point is an element of the same Points and the call grows it) */
void contract_alias_Points__point__Point_sz(struct Points *self, const struct Point *point, size_t idx)
__CPROVER_requires(vf_exc == 0 && __CPROVER_rw_ok(self, sizeof(*self)) && VECP_OK(SP) && self->_points.size < VF_MAXN &&
                   vf_gj < self->_points.size && point == &self->_points.data[vf_gj] && (idx == SIZE_MAX || (idx >= self->_points.size && idx < VF_MAXN && idx == vf_gf2)))
__CPROVER_assigns(self->_points.data, self->_points.size, __CPROVER_object_whole(self->_points.data))
__CPROVER_frees(self->_points.data)
/*@ C13 C06 : Points_point_alias.count */ __CPROVER_ensures(self->_points.size == (idx == SIZE_MAX ? OLDN + 1 : idx + 1))
/*@ C13 C10 : Points_point_alias.nothrow */ __CPROVER_ensures(vf_exc == 0);

void h_Points_point_alias(void)
{
  size_t idx;
  struct Points *self = mk_points_for(SIZE_MAX);
  __CPROVER_assume(vf_gj < self->_points.size && vf_gc < VF_MAXSTR);
  __CPROVER_assume(idx == SIZE_MAX || (idx >= self->_points.size && idx < VF_MAXN && idx == vf_gf2));
  Points__point__Point_sz(self, &self->_points.data[vf_gj], idx);
  VF_CANARY();
}
