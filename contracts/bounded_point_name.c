/* Bounded stand-in (level B, never counted as proved) for c3d::point(const std::string& name): declaring a point by name.
 * Without frames: the name goes to updateParameters as a pending point; with frames: one frame holding one empty point of
 * that name is built and handed, once per stored frame, to the column adder point(frames) (C06 C05).
 * Plain CBMC with unwinding; the object constructors, Points::point(p), Frame::add(points), vector<Frame>::push_back, the
 * column adder and updateParameters are recording stubs.  Bound: at most 3 stored frames. */
#include "vf_harness.h"
VF_GHOSTS
int vf_step;                       /* order of the recorded calls */
const struct Point *vf_pn_point; const vf_string *vf_pn_name; int vf_pn_named_at, vf_pn_appended_at, vf_pn_added_at;
const struct Points *vf_pn_points; const struct Frame *vf_pn_frame;
size_t vf_pn_pushes; _Bool vf_pn_push_ok;
int vf_pn_column_calls, vf_pn_column_at; size_t vf_pn_pushes_at_column; const vf_vec_Frame *vf_pn_vec;
int vf_pn_update_calls; size_t vf_pn_upd_points, vf_pn_upd_analogs; const vf_string *vf_pn_upd_first;
char vf_pn_upd_c0; size_t vf_pn_upd_len;

void stubn_Point_ctor(struct Point *self, const vf_string *name) { vf_pn_point = self; }
void stubn_Point_name(struct Point *self, const vf_string *name) { if (self == vf_pn_point) { vf_pn_name = name; vf_pn_named_at = ++vf_step; } }
void stubn_Points_ctor(struct Points *self) { vf_pn_points = self; }
void stubn_Points_append(struct Points *self, const struct Point *p, size_t idx)
{
  __CPROVER_assert(self == vf_pn_points && p == vf_pn_point && idx == (size_t)-1, "the empty point is appended to the dummy points");
  vf_pn_appended_at = ++vf_step;
}
void stubn_Frame_ctor(struct Frame *self) { vf_pn_frame = self; }
void stubn_Frame_add(struct Frame *self, const struct Points *p)
{
  __CPROVER_assert(self == vf_pn_frame && p == vf_pn_points, "the dummy points are put into the dummy frame");
  vf_pn_added_at = ++vf_step;
}
void stubn_push_back(vf_vec_Frame *v, const struct Frame *f)
{
  if (f != vf_pn_frame || vf_pn_added_at == 0) vf_pn_push_ok = 0;
  vf_pn_vec = v;
  ++vf_pn_pushes;
}
void stubn_column(struct c3d *self, const vf_vec_Frame *frames)
{
  ++vf_pn_column_calls; vf_pn_column_at = ++vf_step; vf_pn_pushes_at_column = vf_pn_pushes;
  __CPROVER_assert(frames == vf_pn_vec || vf_pn_pushes == 0, "the column adder gets the vector that was filled");
}
void stubn_update(struct c3d *self, const vf_vec_string *np, const vf_vec_string *na)
{
  ++vf_pn_update_calls; vf_pn_upd_points = np->size; vf_pn_upd_analogs = na->size;
  if (np->size == 1) { vf_pn_upd_len = np->data[0].size; vf_pn_upd_c0 = np->data[0].size ? np->data[0].data[0] : 0; }
}

void h_B_c3d_point_name(void)
{
  struct c3d *self = (struct c3d *)vf_alloc(sizeof(*self));
  self->_data = (struct Data *)vf_alloc(sizeof(struct Data));
  size_t F = nondet_size_t();
  __CPROVER_assume(F <= 3);
  self->_data->_frames.size = F;
  self->_data->_frames.data = (struct Frame *)vf_alloc(3 * sizeof(struct Frame));
  vf_string *name = (vf_string *)vf_alloc(sizeof(*name));
  size_t m = nondet_size_t();
  __CPROVER_assume(m <= 2);
  name->size = m; name->data = (char *)vf_alloc(3); name->data[m] = 0;
  vf_step = 0; vf_pn_pushes = 0; vf_pn_push_ok = 1; vf_pn_column_calls = 0; vf_pn_update_calls = 0;
  vf_pn_named_at = vf_pn_appended_at = vf_pn_added_at = vf_pn_column_at = 0; vf_exc = 0;
  c3d__point__str(self, name);
  /*@ C06 C05 : point_name.nothrow-by-itself */ __CPROVER_assert(vf_exc == 0, "declaring by name does not throw by itself (the column adder / updater may)");
  if (F == 0) {
    /*@ C05 C06 : point_name.without-frames-the-name-is-pending */
    __CPROVER_assert(vf_pn_update_calls == 1 && vf_pn_column_calls == 0 && vf_pn_upd_points == 1 && vf_pn_upd_analogs == 0 &&
                     vf_pn_upd_len == m && (m == 0 || vf_pn_upd_c0 == name->data[0]), "updateParameters({name}, {}) and nothing else");
  } else {
    /*@ C06 : point_name.one-empty-point-of-that-name-per-stored-frame */
    __CPROVER_assert(vf_pn_name == name && 0 < vf_pn_named_at && vf_pn_named_at < vf_pn_appended_at && vf_pn_appended_at < vf_pn_added_at &&
                     vf_pn_push_ok && vf_pn_pushes == F && vf_pn_column_calls == 1 && vf_pn_pushes_at_column == F && vf_pn_added_at < vf_pn_column_at &&
                     vf_pn_update_calls == 0,
                     "point named, appended, framed; the frame pushed once per stored frame; then the column adder, once");
  }
  VF_CANARY();
}

/* ---------------------------------------------------------------- c3d::analog(const std::string& name): one empty channel of that
 * name (value 0) per sub-frame (the header's sub-frame count) per stored frame, then the column adder analog(frames);
 * without frames the name is pending.  Bound: at most 3 stored frames, 3 sub-frames. */
const struct Channel *vf_an_chan; const struct SubFrame *vf_an_sub; const struct Analogs *vf_an_analogs;
int vf_an_named_at, vf_an_zeroed_at, vf_an_appended_at; size_t vf_an_subs; _Bool vf_an_sub_ok; int vf_an_last_sub_at;
void stuba_Channel_ctor(struct Channel *self, const vf_string *name) { vf_an_chan = self; }
void stuba_Channel_name(struct Channel *self, const vf_string *name) { if (self == vf_an_chan) { vf_pn_name = name; vf_an_named_at = ++vf_step; } }
void stuba_Channel_data(struct Channel *self, float v) { if (self == vf_an_chan && v == 0.0f) vf_an_zeroed_at = ++vf_step; }
void stuba_SubFrame_ctor(struct SubFrame *self) { vf_an_sub = self; }
void stuba_SubFrame_append(struct SubFrame *self, const struct Channel *c, size_t idx)
{
  __CPROVER_assert(self == vf_an_sub && c == vf_an_chan && idx == (size_t)-1, "the empty channel is appended to the dummy sub-frame");
  vf_an_appended_at = ++vf_step;
}
struct Analogs *stuba_Frame_analogs(const struct Frame *self) { return (struct Analogs *)vf_an_analogs; }
void stuba_Analogs_append(struct Analogs *self, const struct SubFrame *s, size_t idx)
{
  if (self != vf_an_analogs || s != vf_an_sub || idx != (size_t)-1 || vf_an_appended_at == 0) vf_an_sub_ok = 0;
  ++vf_an_subs; vf_an_last_sub_at = ++vf_step;
}
void stuba_push_back(vf_vec_Frame *v, const struct Frame *f)
{
  if (f != vf_pn_frame) vf_pn_push_ok = 0;
  vf_pn_vec = v;
  ++vf_pn_pushes;
}
void stuba_update(struct c3d *self, const vf_vec_string *np, const vf_vec_string *na)
{
  ++vf_pn_update_calls; vf_pn_upd_points = np->size; vf_pn_upd_analogs = na->size;
  if (na->size == 1) { vf_pn_upd_len = na->data[0].size; vf_pn_upd_c0 = na->data[0].size ? na->data[0].data[0] : 0; }
}

void h_B_c3d_analog_name(void)
{
  struct c3d *self = (struct c3d *)vf_alloc(sizeof(*self));
  self->_data = (struct Data *)vf_alloc(sizeof(struct Data));
  self->_header = (struct Header *)vf_alloc(sizeof(struct Header));
  size_t F = nondet_size_t(), S = nondet_size_t();
  __CPROVER_assume(F <= 3 && S <= 3);
  self->_header->_nbAnalogByFrame = S;
  self->_data->_frames.size = F;
  self->_data->_frames.data = (struct Frame *)vf_alloc(3 * sizeof(struct Frame));
  vf_an_analogs = (struct Analogs *)vf_alloc(sizeof(struct Analogs));
  vf_string *name = (vf_string *)vf_alloc(sizeof(*name));
  size_t m = nondet_size_t();
  __CPROVER_assume(m <= 2);
  name->size = m; name->data = (char *)vf_alloc(3); name->data[m] = 0;
  vf_step = 0; vf_pn_pushes = 0; vf_pn_push_ok = 1; vf_pn_column_calls = 0; vf_pn_update_calls = 0; vf_an_subs = 0; vf_an_sub_ok = 1;
  vf_an_named_at = vf_an_zeroed_at = vf_an_appended_at = vf_an_last_sub_at = vf_pn_column_at = 0; vf_exc = 0;
  c3d__analog__str(self, name);
  /*@ C06 C05 : analog_name.nothrow-by-itself */ __CPROVER_assert(vf_exc == 0, "declaring by name does not throw by itself");
  if (F == 0) {
    /*@ C05 C06 : analog_name.without-frames-the-name-is-pending */
    __CPROVER_assert(vf_pn_update_calls == 1 && vf_pn_column_calls == 0 && vf_pn_upd_points == 0 && vf_pn_upd_analogs == 1 &&
                     vf_pn_upd_len == m && (m == 0 || vf_pn_upd_c0 == name->data[0]), "updateParameters({}, {name}) and nothing else");
  } else {
    /*@ C06 C05 : analog_name.one-zero-channel-of-that-name-per-subframe-per-stored-frame */
    __CPROVER_assert(vf_pn_name == name && 0 < vf_an_named_at && 0 < vf_an_zeroed_at && vf_an_named_at < vf_an_appended_at && vf_an_zeroed_at < vf_an_appended_at &&
                     vf_an_sub_ok && vf_an_subs == S && vf_pn_push_ok && vf_pn_pushes == F && vf_pn_column_calls == 1 && vf_pn_pushes_at_column == F &&
                     vf_an_last_sub_at < vf_pn_column_at && vf_pn_update_calls == 0,
                     "channel named and zeroed, put into a sub-frame, the sub-frame added once per header sub-frame, the frame pushed once per stored frame, then the column adder");
  }
  VF_CANARY();
}
