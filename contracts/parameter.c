/* Parameter: shape predicate and typed setters (C09 C10 C13). */
#include "vf_harness.h"
VF_GHOSTS

/* mathematical product of the dimensions: with at most 7 dimensions of at most 255 (the format's capacity)
 * it is below 2^56, so the 64-bit product below *is* the mathematical product */
size_t vf_pp[8]; /* ghost: vf_pp[k] = d[0] * ... * d[k-1], computed by the harness (mk_dims) */
/* the property's predicate: element count == product; empty data only with an empty or zero-sized shape */
#define SPEC_CONSISTENT(n, d) ((n) == 0 ? ((d)->size == 0 || vf_pp[(d)->size] == 0) : (n) == vf_pp[(d)->size])

#define VF_DIMS_OK(d) (__CPROVER_r_ok(d, sizeof(*(d))) && (d)->size <= 7 && __CPROVER_r_ok((d)->data, ((d)->size ? (d)->size : 1) * sizeof(size_t)) && \
   ((d)->size < 1 || (d)->data[0] <= 255) && ((d)->size < 2 || (d)->data[1] <= 255) && ((d)->size < 3 || (d)->data[2] <= 255) && \
   ((d)->size < 4 || (d)->data[3] <= 255) && ((d)->size < 5 || (d)->data[4] <= 255) && ((d)->size < 6 || (d)->data[5] <= 255) && \
   ((d)->size < 7 || (d)->data[6] <= 255))

_Bool contract_Parameter__isDimensionConsistent(const struct Parameter *self, size_t dataSize, const vf_vec_size_t *dimension)
__CPROVER_requires(vf_exc == 0 && __CPROVER_r_ok(self, sizeof(*self)) && VF_DIMS_OK(dimension))
__CPROVER_assigns()
/*@ C09 : isDimensionConsistent.is-the-product-predicate */
__CPROVER_ensures(__CPROVER_return_value == (SPEC_CONSISTENT(dataSize, dimension) ? 1 : 0))
/*@ C09 C10 : isDimensionConsistent.nothrow */ __CPROVER_ensures(vf_exc == 0);

static vf_vec_size_t *mk_dims(void)
{
  vf_vec_size_t *d = (vf_vec_size_t *)vf_alloc(sizeof(*d));
#ifdef VF_NDIMS
  size_t n = VF_NDIMS; /* one query per number of dimensions 0..7: the products are then the same terms on both sides */
#else
  size_t n = nondet_size_t();
  __CPROVER_assume(n <= 7);
#endif
  d->size = n;
  d->data = (size_t *)vf_alloc((n ? n : 1) * sizeof(size_t));
  vf_pp[0] = 1;
  for (size_t i = 0; i < 7; ++i) {
    if (i < n)
      __CPROVER_assume(d->data[i] <= 255);
    vf_pp[i + 1] = i < n ? vf_pp[i] * d->data[i] : vf_pp[i];
  }
  return d;
}

void h_isDimensionConsistent(void)
{
  struct Parameter *self = (struct Parameter *)vf_alloc(sizeof(*self));
  size_t n;
  Parameter__isDimensionConsistent(self, n, mk_dims());
  VF_CANARY();
}

/* ---------------------------------------------------------------- set(vector<int>, dims)
 * The setters are proved against the shape predicate *as a call*: which arguments it was asked about and what it
 * answered are recorded in ghost variables by this recording contract (sound for any side-effect-free, non-throwing
 * predicate: unit isDimensionConsistent proves assigns() and nothrow).  "accepted <=> count == product" is then the
 * composition of Parameter_set_*.accepted-iff-predicate with isDimensionConsistent.is-the-product-predicate;
 * stating the product in both contracts makes the solver prove two multiplier chains equivalent (>300 s). */
size_t vf_rec_n, vf_rec_dsize, vf_rec_dval;
_Bool vf_rec_ret, vf_rec_called;
_Bool contract_rec_Parameter__isDimensionConsistent(const struct Parameter *self, size_t dataSize, const vf_vec_size_t *dimension)
__CPROVER_requires(vf_exc == 0 && __CPROVER_r_ok(self, sizeof(*self)) && __CPROVER_r_ok(dimension, sizeof(*dimension)) && dimension->size <= 7 &&
                   __CPROVER_r_ok(dimension->data, (dimension->size ? dimension->size : 1) * sizeof(size_t)) && !vf_rec_called)
__CPROVER_assigns(vf_rec_n, vf_rec_dsize, vf_rec_dval, vf_rec_ret, vf_rec_called)
__CPROVER_ensures(vf_rec_called && vf_rec_n == dataSize && vf_rec_dsize == dimension->size && vf_rec_ret == __CPROVER_return_value)
__CPROVER_ensures(vf_gd < dimension->size ==> vf_rec_dval == dimension->data[vf_gd])
__CPROVER_ensures(vf_exc == 0);

static struct Parameter *mk_parameter(void)
{
  struct Parameter *p = (struct Parameter *)vf_alloc(sizeof(*p));
  vf_mk_string(&p->_name);
  vf_mk_string(&p->_description);
  VF_MK_VEC(p->_param_data_int, int);
  VF_MK_VEC(p->_param_data_float, float);
  VF_MK_VEC(p->_param_data_string, vf_string);
  size_t n = nondet_size_t();
  __CPROVER_assume(n <= 8);
  p->_dimension.size = n;
  p->_dimension.data = (size_t *)vf_alloc((n ? n : 1) * sizeof(size_t));
  return p;
}

#define OLD_INT(i) __CPROVER_old(self->_param_data_int.data[(i) < self->_param_data_int.size ? (i) : 0])
#define OLD_DIM(i) __CPROVER_old(self->_dimension.data[(i) < self->_dimension.size ? (i) : 0])

void contract_Parameter__set__vint_vsz(struct Parameter *self, const vf_vec_int *data, const vf_vec_size_t *dimension)
__CPROVER_requires(vf_exc == 0 && __CPROVER_rw_ok(self, sizeof(*self)) && __CPROVER_r_ok(data, sizeof(*data)) && VF_VEC_OK(*data, int) &&
                   VF_DIMS_OK(dimension) && data->size <= 255 * 255 && VF_VEC_OK(self->_param_data_int, int) &&
                   self->_dimension.size <= 8 && __CPROVER_r_ok(self->_dimension.data, (self->_dimension.size ? self->_dimension.size : 1) * sizeof(size_t)))
__CPROVER_requires(!vf_rec_called)
__CPROVER_assigns(vf_exc, self->_data_type, self->_param_data_int.data, self->_param_data_int.size, self->_dimension.data, self->_dimension.size,
                  vf_rec_n, vf_rec_dsize, vf_rec_dval, vf_rec_ret, vf_rec_called)
__CPROVER_frees(self->_param_data_int.data, self->_dimension.data)
/*@ C09 : Parameter_set_int.predicate-asked-about-count-and-shape */
__CPROVER_ensures(vf_rec_called && vf_rec_n == data->size &&
                  (dimension->size != 0 ==> (vf_rec_dsize == dimension->size && (vf_gd < dimension->size ==> vf_rec_dval == dimension->data[vf_gd]))) &&
                  (dimension->size == 0 ==> (vf_rec_dsize == 1 && (vf_gd == 0 ==> vf_rec_dval == data->size))))
/*@ C09 : Parameter_set_int.accepted-iff-predicate */
__CPROVER_ensures((vf_exc == 0 && vf_rec_ret) || (vf_exc != 0 && !vf_rec_ret))
/*@ C09 C10 : Parameter_set_int.refused-with-range-error */
__CPROVER_ensures(vf_exc != 0 ==> vf_exc == VF_EXC_range_error)
/*@ C09 : Parameter_set_int.type-is-int */ __CPROVER_ensures(vf_exc == 0 ==> self->_data_type == 2)
/*@ C09 : Parameter_set_int.values-stored */
__CPROVER_ensures(vf_exc == 0 ==> (self->_param_data_int.size == data->size &&
                                    (vf_gv < data->size ==> self->_param_data_int.data[vf_gv] == data->data[vf_gv])))
/*@ C09 : Parameter_set_int.explicit-dimensions-stored */
__CPROVER_ensures((vf_exc == 0 && dimension->size != 0) ==> (self->_dimension.size == dimension->size &&
                                    (vf_gd < dimension->size ==> self->_dimension.data[vf_gd] == dimension->data[vf_gd])))
/*@ C09 : Parameter_set_int.default-dimension-is-count */
__CPROVER_ensures((vf_exc == 0 && dimension->size == 0) ==> (self->_dimension.size == 1 && self->_dimension.data[0] == data->size))
/*@ C10 C09 : Parameter_set_int.refused-leaves-type */
__CPROVER_ensures(vf_exc != 0 ==> self->_data_type == __CPROVER_old(self->_data_type))
/*@ C10 C09 : Parameter_set_int.refused-leaves-values */
__CPROVER_ensures(vf_exc != 0 ==> (self->_param_data_int.size == __CPROVER_old(self->_param_data_int.size) &&
                                    self->_param_data_int.data == __CPROVER_old(self->_param_data_int.data) &&
                                    (vf_gv < self->_param_data_int.size ==> self->_param_data_int.data[vf_gv] == OLD_INT(vf_gv))))
/*@ C10 C09 : Parameter_set_int.refused-leaves-dimensions */
__CPROVER_ensures(vf_exc != 0 ==> (self->_dimension.size == __CPROVER_old(self->_dimension.size) &&
                                    self->_dimension.data == __CPROVER_old(self->_dimension.data) &&
                                    (vf_gd < self->_dimension.size ==> self->_dimension.data[vf_gd] == OLD_DIM(vf_gd))));

void h_Parameter_set_int(void)
{
  struct Parameter *self = mk_parameter();
  vf_vec_int *data = (vf_vec_int *)vf_alloc(sizeof(*data));
  VF_MK_VEC(*data, int);
  __CPROVER_assume(data->size <= 255 * 255);
  vf_rec_called = 0;
  Parameter__set__vint_vsz(self, data, mk_dims());
  VF_CANARY();
}

/* ---------------------------------------------------------------- set(vector<float>, dims): same contract as the int form, values compared bit for bit */
#define OLD_FLT(i) __CPROVER_old(self->_param_data_float.data[(i) < self->_param_data_float.size ? (i) : 0])

void contract_Parameter__set__vfloat_vsz(struct Parameter *self, const vf_vec_float *data, const vf_vec_size_t *dimension)
__CPROVER_requires(vf_exc == 0 && __CPROVER_rw_ok(self, sizeof(*self)) && __CPROVER_r_ok(data, sizeof(*data)) && VF_VEC_OK(*data, float) &&
                   VF_DIMS_OK(dimension) && data->size <= 255 * 255 && VF_VEC_OK(self->_param_data_float, float) &&
                   self->_dimension.size <= 8 && __CPROVER_r_ok(self->_dimension.data, (self->_dimension.size ? self->_dimension.size : 1) * sizeof(size_t)))
__CPROVER_requires(!vf_rec_called)
__CPROVER_assigns(vf_exc, self->_data_type, self->_param_data_float.data, self->_param_data_float.size, self->_dimension.data, self->_dimension.size,
                  vf_rec_n, vf_rec_dsize, vf_rec_dval, vf_rec_ret, vf_rec_called)
__CPROVER_frees(self->_param_data_float.data, self->_dimension.data)
/*@ C09 : Parameter_set_float.predicate-asked-about-count-and-shape */
__CPROVER_ensures(vf_rec_called && vf_rec_n == data->size &&
                  (dimension->size != 0 ==> (vf_rec_dsize == dimension->size && (vf_gd < dimension->size ==> vf_rec_dval == dimension->data[vf_gd]))) &&
                  (dimension->size == 0 ==> (vf_rec_dsize == 1 && (vf_gd == 0 ==> vf_rec_dval == data->size))))
/*@ C09 : Parameter_set_float.accepted-iff-predicate */
__CPROVER_ensures((vf_exc == 0 && vf_rec_ret) || (vf_exc != 0 && !vf_rec_ret))
/*@ C09 C10 : Parameter_set_float.refused-with-range-error */
__CPROVER_ensures(vf_exc != 0 ==> vf_exc == VF_EXC_range_error)
/*@ C09 : Parameter_set_float.type-is-float */ __CPROVER_ensures(vf_exc == 0 ==> self->_data_type == 4)
/*@ C09 : Parameter_set_float.values-stored */
__CPROVER_ensures(vf_exc == 0 ==> (self->_param_data_float.size == data->size &&
                                    (vf_gv < data->size ==> VF_FBITS(self->_param_data_float.data[vf_gv]) == VF_FBITS(data->data[vf_gv]))))
/*@ C09 : Parameter_set_float.explicit-dimensions-stored */
__CPROVER_ensures((vf_exc == 0 && dimension->size != 0) ==> (self->_dimension.size == dimension->size &&
                                    (vf_gd < dimension->size ==> self->_dimension.data[vf_gd] == dimension->data[vf_gd])))
/*@ C09 : Parameter_set_float.default-dimension-is-count */
__CPROVER_ensures((vf_exc == 0 && dimension->size == 0) ==> (self->_dimension.size == 1 && self->_dimension.data[0] == data->size))
/*@ C10 C09 : Parameter_set_float.refused-leaves-type */
__CPROVER_ensures(vf_exc != 0 ==> self->_data_type == __CPROVER_old(self->_data_type))
/*@ C10 C09 : Parameter_set_float.refused-leaves-values */
__CPROVER_ensures(vf_exc != 0 ==> (self->_param_data_float.size == __CPROVER_old(self->_param_data_float.size) &&
                                    self->_param_data_float.data == __CPROVER_old(self->_param_data_float.data) &&
                                    (vf_gv < self->_param_data_float.size ==> VF_FBITS(self->_param_data_float.data[vf_gv]) == VF_FBITS(OLD_FLT(vf_gv)))))
/*@ C10 C09 : Parameter_set_float.refused-leaves-dimensions */
__CPROVER_ensures(vf_exc != 0 ==> (self->_dimension.size == __CPROVER_old(self->_dimension.size) &&
                                    self->_dimension.data == __CPROVER_old(self->_dimension.data) &&
                                    (vf_gd < self->_dimension.size ==> self->_dimension.data[vf_gd] == OLD_DIM(vf_gd))));

void h_Parameter_set_float(void)
{
  struct Parameter *self = mk_parameter();
  vf_vec_float *data = (vf_vec_float *)vf_alloc(sizeof(*data));
  VF_MK_VEC(*data, float);
  __CPROVER_assume(data->size <= 255 * 255);
  vf_rec_called = 0;
  Parameter__set__vfloat_vsz(self, data, mk_dims());
  VF_CANARY();
}

/* ---------------------------------------------------------------- set(vector<string>, dims): bounded unit (<= 4 strings;
 * the longest-string loop is unwound).  Strings gain a leading dimension equal to the longest string. */
#define OLD_SDIM(i) __CPROVER_old(self->_dimension.data[(i) < self->_dimension.size ? (i) : 0])
#define SLEN(i) ((i) < data->size ? data->data[i].size : 0)
void contract_Parameter__set__vstr_vsz(struct Parameter *self, const vf_vec_string *data, const vf_vec_size_t *dimension)
__CPROVER_requires(vf_exc == 0 && __CPROVER_rw_ok(self, sizeof(*self)) && __CPROVER_r_ok(data, sizeof(*data)) && data->size <= 4 &&
                   __CPROVER_r_ok(data->data, 4 * sizeof(vf_string)) && VF_DIMS_OK(dimension) && dimension->size <= 6 &&
                   VF_VEC_OK(self->_param_data_string, vf_string) &&
                   self->_dimension.size <= 8 && __CPROVER_r_ok(self->_dimension.data, (self->_dimension.size ? self->_dimension.size : 1) * sizeof(size_t)))
__CPROVER_requires(!vf_rec_called)
__CPROVER_assigns(vf_exc, self->_data_type, self->_param_data_string.data, self->_param_data_string.size, self->_dimension.data, self->_dimension.size,
                  vf_rec_n, vf_rec_dsize, vf_rec_dval, vf_rec_ret, vf_rec_called)
__CPROVER_frees(self->_param_data_string.data, self->_dimension.data)
/*@ C09 : Parameter_set_string.accepted-iff-predicate */
__CPROVER_ensures(vf_rec_called && vf_rec_n == data->size && ((vf_exc == 0 && vf_rec_ret) || (vf_exc != 0 && !vf_rec_ret)))
/*@ C09 C10 : Parameter_set_string.refused-with-range-error */ __CPROVER_ensures(vf_exc != 0 ==> vf_exc == VF_EXC_range_error)
/*@ C09 : Parameter_set_string.type-is-char */ __CPROVER_ensures(vf_exc == 0 ==> self->_data_type == -1)
/*@ C09 : Parameter_set_string.leading-dimension-is-longest-string */
__CPROVER_ensures(vf_exc == 0 ==> (self->_dimension.size == (dimension->size == 0 ? 1 : dimension->size) + 1 &&
                   self->_dimension.data[0] >= SLEN(0) && self->_dimension.data[0] >= SLEN(1) && self->_dimension.data[0] >= SLEN(2) &&
                   self->_dimension.data[0] >= SLEN(3) &&
                   (self->_dimension.data[0] == SLEN(0) || self->_dimension.data[0] == SLEN(1) || self->_dimension.data[0] == SLEN(2) ||
                    self->_dimension.data[0] == SLEN(3))))
/*@ C09 : Parameter_set_string.given-dimensions-follow */
__CPROVER_ensures((vf_exc == 0 && dimension->size != 0 && vf_gd < dimension->size) ==> self->_dimension.data[vf_gd + 1] == dimension->data[vf_gd])
/*@ C09 : Parameter_set_string.default-dimension-is-count */
__CPROVER_ensures((vf_exc == 0 && dimension->size == 0) ==> self->_dimension.data[1] == data->size)
/*@ C09 : Parameter_set_string.values-stored */ __CPROVER_ensures(vf_exc == 0 ==> self->_param_data_string.size == data->size)
/*@ C10 C09 : Parameter_set_string.refused-leaves-type */ __CPROVER_ensures(vf_exc != 0 ==> self->_data_type == __CPROVER_old(self->_data_type))
/*@ C10 C09 : Parameter_set_string.refused-leaves-values */
__CPROVER_ensures(vf_exc != 0 ==> (self->_param_data_string.size == __CPROVER_old(self->_param_data_string.size) &&
                                    self->_param_data_string.data == __CPROVER_old(self->_param_data_string.data)))
/*@ C10 C09 : Parameter_set_string.refused-leaves-dimensions */
__CPROVER_ensures(vf_exc != 0 ==> (self->_dimension.size == __CPROVER_old(self->_dimension.size) &&
                                    self->_dimension.data == __CPROVER_old(self->_dimension.data) &&
                                    (vf_gd < self->_dimension.size ==> self->_dimension.data[vf_gd] == OLD_SDIM(vf_gd))));

void h_Parameter_set_string(void)
{
  struct Parameter *self = mk_parameter();
  vf_vec_string *data = (vf_vec_string *)vf_alloc(sizeof(*data));
  size_t n = nondet_size_t();
  __CPROVER_assume(n <= 4);
  data->size = n;
  data->data = (vf_string *)vf_alloc(4 * sizeof(vf_string));
  for (int i = 0; i < 4; ++i)
    vf_mk_string(&data->data[i]);
  vf_vec_size_t *dims = mk_dims();
  __CPROVER_assume(dims->size <= 6);
  vf_rec_called = 0;
  Parameter__set__vstr_vsz(self, data, dims);
  VF_CANARY();
}
