/* Contracts of the byte-assembly kernels (proved in units hex2uint / hex2int, used by the reader units). */
#ifndef VF_KERNEL_CONTRACTS_H
#define VF_KERNEL_CONTRACTS_H
#include "vf_contracts.h"

/* ---------------------------------------------------------------- c3d::hex2uint */
unsigned int contract_c3d__hex2uint(struct c3d *self, const char *val, unsigned int len)
__CPROVER_requires(vf_exc == 0 && len <= 512 && __CPROVER_r_ok(val, len ? len : 1))
/*@ C12 C02 : hex2uint.len0 */ __CPROVER_ensures(len == 0 ==> __CPROVER_return_value == 0)
/*@ C12 C02 : hex2uint.len1 */ __CPROVER_ensures(len == 1 ==> __CPROVER_return_value == VF_U8(val, 0))
/*@ C12 C02 : hex2uint.len2 */ __CPROVER_ensures(len == 2 ==> __CPROVER_return_value == VF_U16(val, 0))
/*@ C12 C02 : hex2uint.len3 */ __CPROVER_ensures(len == 3 ==> __CPROVER_return_value == (VF_U16(val, 0) | (VF_U8(val, 2) << 16)))
/*@ C12 C02 : hex2uint.len4 */ __CPROVER_ensures(len >= 4 ==> __CPROVER_return_value == VF_U32(val, 0)) /* wider (reserved) fields: their 4 low-order bytes */
/*@ C12 C10 : hex2uint.nothrow */ __CPROVER_ensures(vf_exc == 0)
__CPROVER_assigns();


/* ---------------------------------------------------------------- c3d::hex2int (callee hex2uint by contract) */
int contract_c3d__hex2int(struct c3d *self, const char *val, unsigned int len)
__CPROVER_requires(vf_exc == 0 && (len == 1 || len == 2 || (len >= 4 && len <= 512)) && __CPROVER_r_ok(val, len))
/*@ C12 C02 C17 : hex2int.int8 */ __CPROVER_ensures(len == 1 ==> __CPROVER_return_value == (int)(signed char)val[0])
/*@ C12 C02 C17 : hex2int.int16 */ __CPROVER_ensures(len == 2 ==> __CPROVER_return_value == (int)(short)(unsigned short)VF_U16(val, 0))
/*@ C12 C02 : hex2int.int32 */ __CPROVER_ensures(len >= 4 ==> __CPROVER_return_value == (int)VF_U32(val, 0))
/*@ C12 : hex2int.nothrow */ __CPROVER_ensures(vf_exc == 0)
__CPROVER_assigns();


/* ---------------------------------------------------------------- Header: derived counts (C05 scalar layer)
 * Format capacity: every header count is a 16-bit word, so the arithmetic is stated for values <= 65535. */
#define HDR16(h) ((h)->_nbAnalogByFrame <= 65535 && (h)->_nbAnalogsMeasurement <= 65535 && (h)->_nb3dPoints <= 65535)

size_t contract_Header__nbAnalogs__void(const struct Header *self)
__CPROVER_requires(vf_exc == 0 && __CPROVER_rw_ok(self, sizeof(*self)) && HDR16(self))
/*@ C05 : Header_nbAnalogs.zero-subframes */ __CPROVER_ensures(self->_nbAnalogByFrame == 0 ==> __CPROVER_return_value == 0)
/*@ C05 : Header_nbAnalogs.channels-times-subframes */
__CPROVER_ensures(self->_nbAnalogByFrame != 0 ==> (__CPROVER_return_value * self->_nbAnalogByFrame <= self->_nbAnalogsMeasurement &&
   self->_nbAnalogsMeasurement - __CPROVER_return_value * self->_nbAnalogByFrame < self->_nbAnalogByFrame))
/*@ C05 : Header_nbAnalogs.nothrow */ __CPROVER_ensures(vf_exc == 0)
__CPROVER_assigns();

void contract_Header__nbAnalogs__sz(struct Header *self, size_t nbOfAnalogs)
__CPROVER_requires(vf_exc == 0 && __CPROVER_rw_ok(self, sizeof(*self)) && HDR16(self) && nbOfAnalogs <= 65535)
/*@ C05 : Header_setNbAnalogs.samples-per-frame */
__CPROVER_ensures(self->_nbAnalogsMeasurement == nbOfAnalogs * self->_nbAnalogByFrame)
/*@ C05 C10 : Header_setNbAnalogs.nothrow */ __CPROVER_ensures(vf_exc == 0)
__CPROVER_assigns(self->_nbAnalogsMeasurement);

size_t contract_Header__nbFrames(const struct Header *self)
__CPROVER_requires(vf_exc == 0 && __CPROVER_rw_ok(self, sizeof(*self)) && HDR16(self))
/*@ C05 : Header_nbFrames.empty */
__CPROVER_ensures((self->_nb3dPoints == 0 && (self->_nbAnalogByFrame == 0 || self->_nbAnalogsMeasurement < self->_nbAnalogByFrame))
                  ==> __CPROVER_return_value == 0)
/*@ C05 C02 : Header_nbFrames.range */
__CPROVER_ensures(!(self->_nb3dPoints == 0 && (self->_nbAnalogByFrame == 0 || self->_nbAnalogsMeasurement < self->_nbAnalogByFrame))
                  ==> __CPROVER_return_value == self->_lastFrame - self->_firstFrame + 1)
/*@ C05 : Header_nbFrames.nothrow */ __CPROVER_ensures(vf_exc == 0)
__CPROVER_assigns();

/* the setter that rescales the analog samples per frame: the channel count is kept.
 * The clause "channels kept" is (a*k)/k == a in disguise: non-linear, no installed back end closes it
 * over 16-bit ranges (probe: >120 s), so it lives in a separate *bounded* contract (values <= 255). */
void contract_Header__nbAnalogByFrame__sz(struct Header *self, size_t k)
__CPROVER_requires(vf_exc == 0 && __CPROVER_rw_ok(self, sizeof(*self)) && HDR16(self) && k <= 65535)
/*@ C05 : Header_setNbAnalogByFrame.stored */ __CPROVER_ensures(self->_nbAnalogByFrame == k)
/*@ C05 : Header_setNbAnalogByFrame.no-subframes-no-samples */
__CPROVER_ensures((__CPROVER_old(self->_nbAnalogByFrame) == 0 || k == 0) ==> self->_nbAnalogsMeasurement == 0)
/*@ C05 C10 : Header_setNbAnalogByFrame.nothrow */ __CPROVER_ensures(vf_exc == 0)
__CPROVER_assigns(self->_nbAnalogsMeasurement, self->_nbAnalogByFrame);

#endif
