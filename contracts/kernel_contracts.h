/* Contracts of the byte-assembly kernels (proved in units hex2uint / hex2int, used by the reader units). */
#ifndef VF_KERNEL_CONTRACTS_H
#define VF_KERNEL_CONTRACTS_H
#include "vf_contracts.h"

/* ---------------------------------------------------------------- c3d::hex2uint */
unsigned int contract_c3d__hex2uint(struct c3d *self, const char *val, unsigned int len)
__CPROVER_requires(vf_exc == 0 && len <= 512 && __CPROVER_r_ok(val, len ? len : 1))
/*@ C12 C02 : hex2uint.len0 */ __CPROVER_ensures(len == 0 ==> __CPROVER_return_value == 0)
/*@ C12 C02 : hex2uint.len1 */ __CPROVER_ensures(len == 1 ==> __CPROVER_return_value == VF_U8(val, 0))
/*@ C12 C02 : hex2uint.len2 */ __CPROVER_ensures(len == 2 ==> __CPROVER_return_value == VF_U16(val, 0))
/*@ C12 C02 : hex2uint.len3 */ __CPROVER_ensures(len == 3 ==> __CPROVER_return_value == (VF_U16(val, 0) | (VF_U8(val, 2) << 16)))
/*@ C12 C02 : hex2uint.len4 */ __CPROVER_ensures(len >= 4 ==> __CPROVER_return_value == VF_U32(val, 0)) /* wider (reserved) fields: their 4 low-order bytes */
/*@ C12 C10 : hex2uint.nothrow */ __CPROVER_ensures(vf_exc == 0)
__CPROVER_assigns();


/* ---------------------------------------------------------------- c3d::hex2int (callee hex2uint by contract) */
int contract_c3d__hex2int(struct c3d *self, const char *val, unsigned int len)
__CPROVER_requires(vf_exc == 0 && (len == 1 || len == 2 || (len >= 4 && len <= 512)) && __CPROVER_r_ok(val, len))
/*@ C12 C02 C17 : hex2int.int8 */ __CPROVER_ensures(len == 1 ==> __CPROVER_return_value == (int)(signed char)val[0])
/*@ C12 C02 C17 : hex2int.int16 */ __CPROVER_ensures(len == 2 ==> __CPROVER_return_value == (int)(short)(unsigned short)VF_U16(val, 0))
/*@ C12 C02 : hex2int.int32 */ __CPROVER_ensures(len >= 4 ==> __CPROVER_return_value == (int)VF_U32(val, 0))
/*@ C12 : hex2int.nothrow */ __CPROVER_ensures(vf_exc == 0)
__CPROVER_assigns();


#endif
