/* Bounded stand-ins (level B, never counted as proved) for the four by-name look-ups: "every access by name returns the
 * first element with exactly that name or throws an invalid-argument error" (C11).  The unbounded proofs of the same clauses
 * are the thorough-tier units Points_pointIdx / SubFrame_channelIdx / Group_parameterIdx / Parameters_groupIdx (loop
 * contracts, 7-28 min each); these units keep the clauses decided in the quick tier and do not depend on the loop structure.
 * Plain CBMC with unwinding on the real function; positional accessor, name getter and the model's string comparison run as
 * they are (no stub).  Bound: at most 3 elements, names of at most 2 characters. */
#include "vf_harness.h"
VF_GHOSTS
#define NE 3
static void mk_name2(vf_string *s)
{
  size_t m = nondet_size_t();
  __CPROVER_assume(m <= 2);
  s->size = m;
  s->data = (char *)vf_alloc(3);
  s->data[m] = 0;
}
static _Bool same2(const vf_string *a, const vf_string *b)
{
  return a->size == b->size && (a->size < 1 || a->data[0] == b->data[0]) && (a->size < 2 || a->data[1] == b->data[1]);
}

/* the verdict is the same for the four containers (and sits outside the macro so that each clause has its own source line) */
static void lookup_verdict(size_t first, size_t r, size_t n, size_t size_after)
{
  /*@ C11 : B_lookup.absent-name-throws-invalid-argument */
  __CPROVER_assert(first != (size_t)-1 || vf_exc == VF_EXC_invalid_argument, "no element of that name: invalid_argument");
  /*@ C11 : B_lookup.present-name-returns-the-first-match */
  __CPROVER_assert(first == (size_t)-1 || (vf_exc == 0 && r == first), "the index of the first element with exactly that name is returned");
  /*@ C11 C13 : B_lookup.container-untouched */
  __CPROVER_assert(size_after == n, "a look-up does not change the container");
}

#define LOOKUP_HARNESS(HN, OWNER, VEC, ELEM, FN)                                                                        \
  void HN(void)                                                                                                        \
  {                                                                                                                    \
    struct OWNER *self = (struct OWNER *)vf_alloc(sizeof(*self));                                                      \
    size_t n = nondet_size_t();                                                                                        \
    __CPROVER_assume(n <= NE);                                                                                         \
    self->VEC.size = n;                                                                                                \
    self->VEC.data = (struct ELEM *)vf_alloc(NE * sizeof(struct ELEM));                                                \
    for (size_t i = 0; i < NE; ++i)                                                                                    \
      if (i < n) mk_name2(&self->VEC.data[i]._name);                                                                   \
    vf_string *name = (vf_string *)vf_alloc(sizeof(*name));                                                            \
    mk_name2(name);                                                                                                    \
    size_t first = (size_t)-1;                                                                                         \
    for (size_t i = NE; i-- > 0;)                                                                                      \
      if (i < n && same2(&self->VEC.data[i]._name, name)) first = i;                                                   \
    vf_exc = 0;                                                                                                        \
    size_t r = FN(self, name);                                                                                         \
    lookup_verdict(first, r, n, self->VEC.size);                                                                        \
    VF_CANARY();                                                                                                       \
  }

LOOKUP_HARNESS(h_B_Points_pointIdx, Points, _points, Point, Points__pointIdx)
LOOKUP_HARNESS(h_B_SubFrame_channelIdx, SubFrame, _channels, Channel, SubFrame__channelIdx)
LOOKUP_HARNESS(h_B_Group_parameterIdx, Group, _parameters, Parameter, Group__parameterIdx)
LOOKUP_HARNESS(h_B_Parameters_groupIdx, Parameters, _groups, Group, Parameters__groupIdx)
