/* Bounded stand-ins (tier B, never counted as proved) for reader functions that the contract instrumentation cannot
 * handle within the resource limits: plain CBMC with unwinding; callees are replaced by abstract stubs (their
 * contracts in executable form: any result the contract allows), the harness asserts the postconditions. */
#include "vf_harness.h"
VF_GHOSTS
long nondet_long(void);
#ifndef VF_BYTE_BOUND
#define VF_BYTE_BOUND 127 /* signed bytes returned by the readInt stub (a unit may bound them) */
#endif

static void stub_stream_effect(struct c3d *file)
{
  /* a read helper may leave the stream anywhere, in any state */
  long p = nondet_long();
  __CPROVER_assume(p >= -1 && p <= 0x7FF00000L); /* files below 2 GiB: the walker keeps file positions in int */
  file->vf_base.pos = p;
  file->vf_base.eof = nondet_bool();
  file->vf_base.fail = nondet_bool();
}

size_t stub_readUint(struct c3d *self, unsigned int n, int off, const int *pos)
{
  __CPROVER_assert(n <= 512, "readUint is asked for at most 512 bytes");
  stub_stream_effect(self);
  size_t v = nondet_size_t();
  __CPROVER_assume(n >= 4 || v < ((size_t)1 << (8 * n)));
  return v;
}

int stub_readInt(struct c3d *self, unsigned int n, int off, const int *pos)
{
  __CPROVER_assert(n == 1 || n == 2 || (n >= 4 && n <= 512), "readInt is asked for 1, 2 or 4..512 bytes");
  stub_stream_effect(self);
  int v = nondet_int();
  __CPROVER_assume(n != 1 || (v >= -VF_BYTE_BOUND && v <= VF_BYTE_BOUND));
  __CPROVER_assume(n != 2 || (v >= -32768 && v <= 32767));
  return v;
}

static int stub_outcome(struct c3d *file)
{
  stub_stream_effect(file);
  int e = nondet_int();
  __CPROVER_assume(e == 0 || e == VF_EXC_ios_failure || e == VF_EXC_runtime_error || e == VF_EXC_out_of_range);
  vf_exc = e;
  return nondet_int();
}
int stub_Group__read(struct Group *self, struct c3d *file, int nbCharInName)
{
  __CPROVER_assert(__CPROVER_rw_ok(self, sizeof(*self)), "Group::read is called on a live group object");
  return stub_outcome(file);
}
int stub_Group__parameter_file(struct Group *self, struct c3d *file, int nbCharInName)
{
  __CPROVER_assert(__CPROVER_rw_ok(self, sizeof(*self)), "Group::parameter(file) is called on a live group object");
  return stub_outcome(file);
}
void stub_Group__ctor(struct Group *self, const vf_string *name, const vf_string *description) { (void)self; }
void stub_vec_Group_push_back(vf_vec_Group *v, const struct Group *x)
{
  size_t n = v->size;
  struct Group *nd = (struct Group *)malloc((n + 1) * sizeof(struct Group));
  __CPROVER_assume(nd != 0);
  free(v->data);
  v->data = nd;
  v->size = n + 1;
}

/* ---- Parameters::Parameters(c3d&): the record walker; at most VF_NREC records are followed */
void h_B_Parameters_read(void)
{
  struct Parameters *self = (struct Parameters *)vf_alloc(sizeof(*self));
  struct c3d *file = vf_mk_c3d_reader();
  file->_header = (struct Header *)vf_alloc(sizeof(struct Header));
  vf_exc = 0;
  Parameters__ctor__c3d(self, file);
  /*@ C16 C13 : B_Parameters_read.standard-outcome */
  __CPROVER_assert(vf_exc == 0 || vf_exc == VF_EXC_ios_failure || vf_exc == VF_EXC_runtime_error || vf_exc == VF_EXC_out_of_range, "standard outcome");
  /*@ C16 C13 : B_Parameters_read.group-table-bounded */
  __CPROVER_assert(vf_exc != 0 || self->_groups.size <= 128, "group table bounded by the id byte");
  /*@ C02 C16 : B_Parameters_read.magic-byte-enforced */
  __CPROVER_assert(vf_exc != 0 || self->_checksum == 0x50, "magic byte enforced");
  VF_CANARY();
}

