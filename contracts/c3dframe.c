/* c3d::frame: the documented guards and the validate-then-mutate order (C07 C10 C13).
 * The chains  parameters().group("POINT").parameter("USED")...  are resolved through a ghost directory:
 * the by-name accessors are replaced by contracts that return the directory entry for the literal asked for. */
#include "vf_harness.h"
VF_GHOSTS

#include "dir_contracts.h"

/* Points::pointIdx(label): found (the position is recorded, call by call) or invalid_argument; a miss is recorded */
_Bool vf_label_missing;
size_t vf_rec_pn, vf_rec_p0, vf_rec_p1; /* number of look-ups so far; position found by the first / second one */
size_t contract_rec_Points__pointIdx(const struct Points *self, const vf_string *pointName)
__CPROVER_requires(vf_exc == 0 && __CPROVER_r_ok(self, sizeof(*self)) && __CPROVER_r_ok(pointName, sizeof(*pointName)))
__CPROVER_assigns(vf_exc, vf_label_missing, vf_rec_pn, vf_rec_p0, vf_rec_p1)
__CPROVER_ensures((vf_exc == 0 && vf_label_missing == __CPROVER_old(vf_label_missing) && vf_rec_pn == __CPROVER_old(vf_rec_pn) + 1 &&
                   (__CPROVER_old(vf_rec_pn) == 0 ==> vf_rec_p0 == __CPROVER_return_value) &&
                   (__CPROVER_old(vf_rec_pn) != 0 ==> vf_rec_p0 == __CPROVER_old(vf_rec_p0)) &&
                   (__CPROVER_old(vf_rec_pn) == 1 ==> vf_rec_p1 == __CPROVER_return_value) &&
                   (__CPROVER_old(vf_rec_pn) != 1 ==> vf_rec_p1 == __CPROVER_old(vf_rec_p1))) ||
                  (vf_exc == VF_EXC_invalid_argument && vf_label_missing));

/* the two mutating steps: recorded, in order */
int vf_step; /* 0 nothing yet, 1 Data::frame done, 2 updateParameters done */
const struct Frame *vf_rec_frame;
size_t vf_rec_idx;
void contract_rec_Data__frame__Frame_sz(struct Data *self, const struct Frame *frame, size_t idx)
__CPROVER_requires(vf_exc == 0 && vf_step == 0 && __CPROVER_rw_ok(self, sizeof(*self)))
__CPROVER_assigns(vf_step, vf_rec_frame, vf_rec_idx)
__CPROVER_ensures(vf_exc == 0 && vf_step == 1 && vf_rec_frame == frame && vf_rec_idx == idx);

void contract_rec_c3d__updateParameters(struct c3d *self, const vf_vec_string *newPoints, const vf_vec_string *newAnalogs)
__CPROVER_requires(vf_exc == 0 && vf_step == 1 && newPoints->size == 0 && newAnalogs->size == 0)
__CPROVER_assigns(vf_step)
__CPROVER_ensures(vf_exc == 0 && vf_step == 2);

void contract_copy_vf_vec_string_ctor_copy(vf_vec_string *v, const vf_vec_string *o)
__CPROVER_requires(__CPROVER_rw_ok(v, sizeof(*v)) && __CPROVER_r_ok(o, sizeof(*o)) && o->size <= 2)
__CPROVER_assigns(v->data, v->size)
__CPROVER_ensures(v->size == o->size && __CPROVER_is_fresh(v->data, 2 * sizeof(vf_string)));

/* ---- the property's predicates over the pre-state */
#define P_USED ((size_t)vf_dir_p_used->_param_data_int.data[0])
#define P_RATE (vf_dir_p_rate->_param_data_float.data[0])
#define A_USED ((size_t)vf_dir_a_used->_param_data_int.data[0])
#define A_RATE (vf_dir_a_rate->_param_data_float.data[0])
#define NLABELS (vf_dir_p_labels->_param_data_string.size)
#define NPTS (f->_points->_points.size)
#define NSUB (f->_analogs->_subframe.size)
#define NCH (f->_analogs->_subframe.data[0]._channels.size)
#define HSUB (self->_header->_nbAnalogByFrame)
#define R1 (P_USED != 0 && NPTS != P_USED)
#define R2 (NPTS > 0 && (double)P_RATE == 0.0)
#define R3 (NSUB > 0 && (double)A_RATE == 0.0)
#define R4 (NSUB > 0 && A_USED != 0 && NCH != A_USED)
#define ACCEPTABLE (!R1 && !vf_label_missing && !R2 && !R3 && (NSUB == 0 || (NCH == A_USED && A_USED != 0)))

void contract_c3d__frame(struct c3d *self, const struct Frame *f, size_t idx)
__CPROVER_requires(vf_exc == 0 && vf_step == 0 && !vf_label_missing && vf_rec_pn == 0 && __CPROVER_rw_ok(self, sizeof(*self)) &&
                   __CPROVER_r_ok(self->_header, sizeof(struct Header)) && __CPROVER_r_ok(self->_parameters, sizeof(struct Parameters)) &&
                   __CPROVER_rw_ok(self->_data, sizeof(struct Data)))
__CPROVER_assigns(vf_exc, vf_label_missing, vf_step, vf_rec_frame, vf_rec_idx, vf_rec_pn, vf_rec_p0, vf_rec_p1)
/*@ C07 : c3d_frame.point-count-mismatch-refused */ __CPROVER_ensures(R1 ==> vf_exc == VF_EXC_runtime_error)
/*@ C07 : c3d_frame.missing-label-refused */ __CPROVER_ensures((!R1 && vf_label_missing) ==> vf_exc == VF_EXC_invalid_argument)
/*@ C07 : c3d_frame.points-without-point-rate-refused */ __CPROVER_ensures((!R1 && !vf_label_missing && R2) ==> vf_exc == VF_EXC_runtime_error)
/*@ C07 : c3d_frame.analogs-without-analog-rate-refused */ __CPROVER_ensures((!R1 && !vf_label_missing && R3) ==> vf_exc == VF_EXC_runtime_error)
/*@ C07 : c3d_frame.channel-count-mismatch-refused */ __CPROVER_ensures((!R1 && !vf_label_missing && R4) ==> vf_exc == VF_EXC_runtime_error)
/*@ C07 : c3d_frame.matching-frame-accepted */ __CPROVER_ensures(ACCEPTABLE ==> vf_exc == 0)
/*@ C07 C06 : c3d_frame.accepted-frame-is-stored-then-parameters-updated */
__CPROVER_ensures(vf_exc == 0 ==> (vf_step == 2 && vf_rec_frame == f && vf_rec_idx == idx))
/*@ C05 C01 : c3d_frame.accepted-frame-has-its-points-in-label-order */
__CPROVER_ensures(vf_exc == 0 ==> ((NLABELS >= 1 ==> vf_rec_p0 == 0) && (NLABELS >= 2 ==> vf_rec_p1 == 1)))
/*@ C10 : c3d_frame.refused-before-any-mutation */ __CPROVER_ensures(vf_exc != 0 ==> vf_step == 0);

void h_c3d_frame(void)
{
  struct c3d *self = (struct c3d *)vf_alloc(sizeof(*self));
  self->_header = (struct Header *)vf_alloc(sizeof(struct Header));
  self->_parameters = (struct Parameters *)vf_alloc(sizeof(struct Parameters));
  self->_data = (struct Data *)vf_alloc(sizeof(struct Data));
  vf_dir_point = (struct Group *)vf_alloc(sizeof(struct Group));
  vf_dir_analog = (struct Group *)vf_alloc(sizeof(struct Group));
  vf_dir_p_used = vf_mk_param_int1();
  vf_dir_a_used = vf_mk_param_int1();
  vf_dir_p_rate = vf_mk_param_float1();
  vf_dir_a_rate = vf_mk_param_float1();
  vf_dir_p_frames = vf_mk_param_int1();
  vf_dir_p_labels = (struct Parameter *)vf_alloc(sizeof(struct Parameter));
  vf_dir_p_labels->_data_type = -1;
  /* at most two labels: the label loop is unwound (bounded part of this unit) */
  size_t nl = nondet_size_t();
  __CPROVER_assume(nl <= 2);
  vf_dir_p_labels->_param_data_string.size = nl;
  vf_dir_p_labels->_param_data_string.data = (vf_string *)vf_alloc(2 * sizeof(vf_string));
  struct Frame *f = (struct Frame *)vf_alloc(sizeof(*f));
  f->_points = (struct Points *)vf_alloc(sizeof(struct Points));
  VF_MK_VEC(f->_points->_points, struct Point);
  f->_analogs = (struct Analogs *)vf_alloc(sizeof(struct Analogs));
  VF_MK_VEC(f->_analogs->_subframe, struct SubFrame);
  if (f->_analogs->_subframe.size > 0)
    VF_MK_VEC(f->_analogs->_subframe.data[0]._channels, struct Channel);
  vf_step = 0;
  vf_label_missing = 0;
  vf_rec_pn = 0;
  size_t idx;
  c3d__frame(self, f, idx);
  VF_CANARY();
}
