/* c3d::frame: the documented guards and the validate-then-mutate order (C07 C10 C13).
 * The chains  parameters().group("POINT").parameter("USED")...  are resolved through a ghost directory:
 * the by-name accessors are replaced by contracts that return the directory entry for the literal asked for. */
#include "vf_harness.h"
VF_GHOSTS

/* ---- ghost directory of the mandatory groups / parameters (set up by the harness = VALID_C3D) */
struct Group *vf_dir_point, *vf_dir_analog;
struct Parameter *vf_dir_p_used, *vf_dir_p_labels, *vf_dir_p_rate, *vf_dir_a_used, *vf_dir_a_rate;

#define IS_LIT5(s, a, b, c, d, e) ((s)->size == 5 && (s)->data[0] == a && (s)->data[1] == b && (s)->data[2] == c && (s)->data[3] == d && (s)->data[4] == e)
#define IS_POINT(s) IS_LIT5(s, 'P', 'O', 'I', 'N', 'T')
#define IS_ANALOG(s) ((s)->size == 6 && (s)->data[0] == 'A' && (s)->data[1] == 'N' && (s)->data[2] == 'A' && (s)->data[3] == 'L' && (s)->data[4] == 'O' && (s)->data[5] == 'G')
#define IS_USED(s) ((s)->size == 4 && (s)->data[0] == 'U' && (s)->data[1] == 'S' && (s)->data[2] == 'E' && (s)->data[3] == 'D')
#define IS_RATE(s) ((s)->size == 4 && (s)->data[0] == 'R' && (s)->data[1] == 'A' && (s)->data[2] == 'T' && (s)->data[3] == 'E')
#define IS_LABELS(s) ((s)->size == 6 && (s)->data[0] == 'L' && (s)->data[1] == 'A' && (s)->data[2] == 'B' && (s)->data[3] == 'E' && (s)->data[4] == 'L' && (s)->data[5] == 'S')

/* Parameters::group(name): directory entry (first-match look-up is proved separately for the look-up functions) */
const struct Group *contract_dir_Parameters__group__str(const struct Parameters *self, const vf_string *groupName)
__CPROVER_requires(vf_exc == 0 && __CPROVER_r_ok(self, sizeof(*self)) && __CPROVER_r_ok(groupName, sizeof(*groupName)) &&
                   __CPROVER_r_ok(groupName->data, groupName->size + 1) && (IS_POINT(groupName) || IS_ANALOG(groupName)))
__CPROVER_assigns()
__CPROVER_ensures(vf_exc == 0 && (IS_POINT(groupName) ? __CPROVER_pointer_equals(__CPROVER_return_value, vf_dir_point)
                                                        : __CPROVER_pointer_equals(__CPROVER_return_value, vf_dir_analog)));

const struct Parameter *contract_dir_Group__parameter__str(const struct Group *self, vf_string *parameterName)
__CPROVER_requires(vf_exc == 0 && __CPROVER_r_ok(parameterName, sizeof(*parameterName)) && __CPROVER_r_ok(parameterName->data, parameterName->size + 1) &&
                   ((self == vf_dir_point && (IS_USED(parameterName) || IS_RATE(parameterName) || IS_LABELS(parameterName))) ||
                    (self == vf_dir_analog && (IS_USED(parameterName) || IS_RATE(parameterName)))))
__CPROVER_assigns()
__CPROVER_ensures(vf_exc == 0 &&
   (self == vf_dir_point ? (IS_USED(parameterName) ? __CPROVER_pointer_equals(__CPROVER_return_value, vf_dir_p_used)
                            : IS_RATE(parameterName) ? __CPROVER_pointer_equals(__CPROVER_return_value, vf_dir_p_rate)
                                                     : __CPROVER_pointer_equals(__CPROVER_return_value, vf_dir_p_labels))
                         : (IS_USED(parameterName) ? __CPROVER_pointer_equals(__CPROVER_return_value, vf_dir_a_used)
                                                   : __CPROVER_pointer_equals(__CPROVER_return_value, vf_dir_a_rate))));

/* Points::pointIdx(label): found or invalid_argument; a miss is recorded */
_Bool vf_label_missing;
size_t contract_rec_Points__pointIdx(const struct Points *self, const vf_string *pointName)
__CPROVER_requires(vf_exc == 0 && __CPROVER_r_ok(self, sizeof(*self)) && __CPROVER_r_ok(pointName, sizeof(*pointName)))
__CPROVER_assigns(vf_exc, vf_label_missing)
__CPROVER_ensures((vf_exc == 0 && vf_label_missing == __CPROVER_old(vf_label_missing)) || (vf_exc == VF_EXC_invalid_argument && vf_label_missing));

/* the two mutating steps: recorded, in order */
int vf_step; /* 0 nothing yet, 1 Data::frame done, 2 updateParameters done */
const struct Frame *vf_rec_frame;
size_t vf_rec_idx;
void contract_rec_Data__frame__Frame_sz(struct Data *self, const struct Frame *frame, size_t idx)
__CPROVER_requires(vf_exc == 0 && vf_step == 0 && __CPROVER_rw_ok(self, sizeof(*self)))
__CPROVER_assigns(vf_step, vf_rec_frame, vf_rec_idx)
__CPROVER_ensures(vf_exc == 0 && vf_step == 1 && vf_rec_frame == frame && vf_rec_idx == idx);

void contract_rec_c3d__updateParameters(struct c3d *self, const vf_vec_string *newPoints, const vf_vec_string *newAnalogs)
__CPROVER_requires(vf_exc == 0 && vf_step == 1 && newPoints->size == 0 && newAnalogs->size == 0)
__CPROVER_assigns(vf_step)
__CPROVER_ensures(vf_exc == 0 && vf_step == 2);

void contract_copy_vf_vec_string_ctor_copy(vf_vec_string *v, const vf_vec_string *o)
__CPROVER_requires(__CPROVER_rw_ok(v, sizeof(*v)) && __CPROVER_r_ok(o, sizeof(*o)) && o->size <= 2)
__CPROVER_assigns(v->data, v->size)
__CPROVER_ensures(v->size == o->size && __CPROVER_is_fresh(v->data, 2 * sizeof(vf_string)));

/* ---- the property's predicates over the pre-state */
#define P_USED ((size_t)vf_dir_p_used->_param_data_int.data[0])
#define P_RATE (vf_dir_p_rate->_param_data_float.data[0])
#define A_USED ((size_t)vf_dir_a_used->_param_data_int.data[0])
#define A_RATE (vf_dir_a_rate->_param_data_float.data[0])
#define NPTS (f->_points->_points.size)
#define NSUB (f->_analogs->_subframe.size)
#define NCH (f->_analogs->_subframe.data[0]._channels.size)
#define HSUB (self->_header->_nbAnalogByFrame)
#define R1 (P_USED != 0 && NPTS != P_USED)
#define R2 (NPTS > 0 && (double)P_RATE == 0.0)
#define R3 (NSUB > 0 && (double)A_RATE == 0.0)
#define R4 (NSUB > 0 && A_USED != 0 && NCH != A_USED)
#define ACCEPTABLE (!R1 && !vf_label_missing && !R2 && !R3 && (NSUB == 0 || (NCH == A_USED && A_USED != 0)))

void contract_c3d__frame(struct c3d *self, const struct Frame *f, size_t idx)
__CPROVER_requires(vf_exc == 0 && vf_step == 0 && !vf_label_missing && __CPROVER_rw_ok(self, sizeof(*self)) &&
                   __CPROVER_r_ok(self->_header, sizeof(struct Header)) && __CPROVER_r_ok(self->_parameters, sizeof(struct Parameters)) &&
                   __CPROVER_rw_ok(self->_data, sizeof(struct Data)))
__CPROVER_assigns(vf_exc, vf_label_missing, vf_step, vf_rec_frame, vf_rec_idx)
/*@ C07 : c3d_frame.point-count-mismatch-refused */ __CPROVER_ensures(R1 ==> vf_exc == VF_EXC_runtime_error)
/*@ C07 : c3d_frame.missing-label-refused */ __CPROVER_ensures((!R1 && vf_label_missing) ==> vf_exc == VF_EXC_invalid_argument)
/*@ C07 : c3d_frame.points-without-point-rate-refused */ __CPROVER_ensures((!R1 && !vf_label_missing && R2) ==> vf_exc == VF_EXC_runtime_error)
/*@ C07 : c3d_frame.analogs-without-analog-rate-refused */ __CPROVER_ensures((!R1 && !vf_label_missing && R3) ==> vf_exc == VF_EXC_runtime_error)
/*@ C07 : c3d_frame.channel-count-mismatch-refused */ __CPROVER_ensures((!R1 && !vf_label_missing && R4) ==> vf_exc == VF_EXC_runtime_error)
/*@ C07 : c3d_frame.matching-frame-accepted */ __CPROVER_ensures(ACCEPTABLE ==> vf_exc == 0)
/*@ C07 C06 : c3d_frame.accepted-frame-is-stored-then-parameters-updated */
__CPROVER_ensures(vf_exc == 0 ==> (vf_step == 2 && vf_rec_frame == f && vf_rec_idx == idx))
/*@ C10 : c3d_frame.refused-before-any-mutation */ __CPROVER_ensures(vf_exc != 0 ==> vf_step == 0);

static struct Parameter *mk_param_int1(void)
{
  struct Parameter *p = (struct Parameter *)vf_alloc(sizeof(*p));
  p->_data_type = 2;
  VF_MK_VEC(p->_param_data_int, int);
  __CPROVER_assume(p->_param_data_int.size >= 1);
  return p;
}
static struct Parameter *mk_param_float1(void)
{
  struct Parameter *p = (struct Parameter *)vf_alloc(sizeof(*p));
  p->_data_type = 4;
  VF_MK_VEC(p->_param_data_float, float);
  __CPROVER_assume(p->_param_data_float.size >= 1);
  return p;
}

void h_c3d_frame(void)
{
  struct c3d *self = (struct c3d *)vf_alloc(sizeof(*self));
  self->_header = (struct Header *)vf_alloc(sizeof(struct Header));
  self->_parameters = (struct Parameters *)vf_alloc(sizeof(struct Parameters));
  self->_data = (struct Data *)vf_alloc(sizeof(struct Data));
  vf_dir_point = (struct Group *)vf_alloc(sizeof(struct Group));
  vf_dir_analog = (struct Group *)vf_alloc(sizeof(struct Group));
  vf_dir_p_used = mk_param_int1();
  vf_dir_a_used = mk_param_int1();
  vf_dir_p_rate = mk_param_float1();
  vf_dir_a_rate = mk_param_float1();
  vf_dir_p_labels = (struct Parameter *)vf_alloc(sizeof(struct Parameter));
  vf_dir_p_labels->_data_type = -1;
  /* at most two labels: the label loop is unwound (bounded part of this unit) */
  size_t nl = nondet_size_t();
  __CPROVER_assume(nl <= 2);
  vf_dir_p_labels->_param_data_string.size = nl;
  vf_dir_p_labels->_param_data_string.data = (vf_string *)vf_alloc(2 * sizeof(vf_string));
  struct Frame *f = (struct Frame *)vf_alloc(sizeof(*f));
  f->_points = (struct Points *)vf_alloc(sizeof(struct Points));
  VF_MK_VEC(f->_points->_points, struct Point);
  f->_analogs = (struct Analogs *)vf_alloc(sizeof(struct Analogs));
  VF_MK_VEC(f->_analogs->_subframe, struct SubFrame);
  if (f->_analogs->_subframe.size > 0)
    VF_MK_VEC(f->_analogs->_subframe.data[0]._channels, struct Channel);
  vf_step = 0;
  vf_label_missing = 0;
  size_t idx;
  c3d__frame(self, f, idx);
  VF_CANARY();
}
