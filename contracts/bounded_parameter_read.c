/* Bounded stand-in (level B, never counted as proved) for Parameter::read(c3d&, nbCharInName): the parameter record
 * (table A.4) decoded from an arbitrary byte image.  Plain CBMC with unwinding; the read helpers are the value stubs of
 * value_stubs.h (their proved contracts in executable form), the three matrix readers c3d::readParam are recording stubs
 * that state their precondition (a non-empty dimension list: they index dimension[currentIdx]) and consume the bytes of
 * the matrix.
 * Bound: image of VF_IMG bytes, |name length| <= 2, at most 3 dimensions (records announcing more are cut), strings asked
 * from readString <= 4 characters (longer requests are cut). */
#define VF_STUB_STR_CUT
#include "vf_harness.h"
VF_GHOSTS
long nondet_long(void);
#include "value_stubs.h"
#ifndef VF_IMG
#define VF_IMG 24
#endif

int vf_mr_calls;               /* matrix reader calls */
unsigned vf_mr_len;            /* element width it was given (0: strings, 4 via the float form) */
int vf_mr_kind;                /* 1 int form, 2 float form, 3 string form */
const vf_vec_size_t *vf_mr_dims;
static void stubp_consume(struct c3d *self, const vf_vec_size_t *d, unsigned width)
{
  /*@ C16 C13 : Parameter_read.matrix-reader-gets-at-least-one-dimension */
  __CPROVER_assert(d->size >= 1, "c3d::readParam indexes dimension[currentIdx]: the dimension list must not be empty");
  __CPROVER_assume(d->size <= 3);
  size_t n = 1, loops = 1;
  for (size_t i = 0; i < 3; ++i) if (i < d->size) { n *= d->data[i]; loops *= d->data[i] ? d->data[i] : 1; }
  /*@ C16 : Parameter_read.matrix-reader-work-bounded-by-the-record */
  __CPROVER_assert(loops <= 65535, "the loops of the matrix readers (product of the non-zero dimensions) stay within what a 65535-byte record can hold");
  vf_stream *f = &self->vf_base;
  size_t want = n * width;
  size_t avail = (!f->eof && !f->fail && f->pos >= 0 && (size_t)f->pos < f->len) ? f->len - (size_t)f->pos : 0;
  if (want <= avail) f->pos += (long)want; else { f->pos += (long)avail; f->eof = 1; f->fail = 1; }
  ++vf_mr_calls;
  vf_mr_dims = d;
}
void stubp_readParam_int(struct c3d *self, unsigned int len, const vf_vec_size_t *d, vf_vec_int *out, size_t cur)
{
  __CPROVER_assert(cur == 0, "top-level call");
  vf_mr_kind = 1; vf_mr_len = len;
  stubp_consume(self, d, len);
}
void stubp_readParam_float(struct c3d *self, const vf_vec_size_t *d, vf_vec_float *out, size_t cur)
{
  __CPROVER_assert(cur == 0, "top-level call");
  vf_mr_kind = 2; vf_mr_len = 4;
  stubp_consume(self, d, 4);
}
void stubp_readParam_string(struct c3d *self, const vf_vec_size_t *d, vf_vec_string *out)
{
  vf_mr_kind = 3; vf_mr_len = 1;
  stubp_consume(self, d, 1);
}

#define B(o) ((unsigned)img[(o)])
void h_B_Parameter_read(void)
{
  struct c3d *file = (struct c3d *)vf_alloc(sizeof(*file));
  unsigned char *img = (unsigned char *)vf_alloc(VF_IMG);
  file->vf_base.buf = img;
  file->vf_base.len = VF_IMG;
  file->vf_base.cap = VF_IMG;
  file->vf_base.pos = 0;
  file->vf_base.is_open = 1;
  file->vf_base.eof = 0;
  file->vf_base.fail = 0;
  file->vf_base.writable = 0;
  file->vf_base.work = 0;
  struct Parameter *self = (struct Parameter *)vf_alloc(sizeof(*self));
  self->_name.size = 0; self->_name.data = (char *)vf_alloc(1); self->_name.data[0] = 0;
  self->_description.size = 0; self->_description.data = (char *)vf_alloc(1); self->_description.data[0] = 0;
  self->_data_type = 10000;
  self->_dimension.size = 0; self->_dimension.data = 0;
  self->_param_data_int.size = 0; self->_param_data_int.data = 0;
  self->_param_data_float.size = 0; self->_param_data_float.data = 0;
  self->_param_data_string.size = 0; self->_param_data_string.data = 0;
  int nb = nondet_int();
  __CPROVER_assume(nb >= -2 && nb <= 2);
  size_t L = (size_t)(nb < 0 ? -nb : nb);       /* name length */
  /* record: name[L] offset(2) type(1) ndims(1) dims[nd] data... desclen(1) desc */
  int type = (int)(signed char)img[L + 2];
  int nd = (int)(signed char)img[L + 3];
  __CPROVER_assume(nd <= 3);                     /* bound: at most 3 dimensions */
  vf_mr_calls = 0; vf_exc = 0;
  int ret = Parameter__read(self, file, nb);
  _Bool known_type = (type == -1 || type == 1 || type == 2 || type == 4);
  /*@ C02 C16 : Parameter_read.unknown-type-refused */
  __CPROVER_assert(known_type || vf_exc == VF_EXC_ios_failure, "a type byte other than -1, 1, 2, 4 is refused");
  /*@ C16 : Parameter_read.only-standard-exceptions */
  __CPROVER_assert(vf_exc == 0 || vf_exc == VF_EXC_ios_failure, "accepted, or refused with ios_base::failure");
  /*@ C16 C02 : Parameter_read.negative-dimension-count-refused */
  __CPROVER_assert(!(known_type && nd < 0) || vf_exc == VF_EXC_ios_failure, "a negative dimension count is refused");
  if (vf_exc == 0) {
    /*@ C02 : Parameter_read.lock-flag-is-the-sign-of-the-name-length */
    __CPROVER_assert(self->_isLocked == (nb < 0), "locked iff the name length byte is negative");
    /*@ C02 : Parameter_read.name */
    __CPROVER_assert(self->_name.size <= L && (vf_gc >= self->_name.size || (unsigned)(unsigned char)self->_name.data[vf_gc] == B(vf_gc)), "name characters");
    /*@ C02 : Parameter_read.type */
    __CPROVER_assert(self->_data_type == type, "element type from the length byte");
    /*@ C02 : Parameter_read.next-record-offset */
    __CPROVER_assert(ret == ((B(L) | (B(L + 1) << 8)) == 0 ? 0 : (int)(L + 2) + (int)(B(L) | (B(L + 1) << 8)) - 2), "offset word 0 = last record, else relative to the word");
    /*@ C02 C01 : Parameter_read.scalar-has-one-dimension-of-one */
    __CPROVER_assert(nd != 0 || (self->_dimension.size == 1 && self->_dimension.data[0] == 1), "0 dimensions = scalar: one element");
    /*@ C02 : Parameter_read.dimensions */
    __CPROVER_assert(nd <= 0 || (self->_dimension.size == (size_t)nd && (vf_gd >= (size_t)nd || self->_dimension.data[vf_gd] == B(L + 4 + vf_gd))), "dimension bytes, unsigned");
    /*@ C02 : Parameter_read.matrix-read-once-with-the-record-dimensions */
    __CPROVER_assert(vf_mr_calls == 1 && vf_mr_dims == &self->_dimension && vf_mr_kind == (type == -1 ? 3 : type == 4 ? 2 : 1) &&
                     (type == -1 || vf_mr_len == (unsigned)type), "one matrix read, of the record's type and dimensions");
  }
  /*@ C16 : Parameter_read.work-bounded-by-the-image */
  __CPROVER_assert(file->vf_base.pos <= VF_IMG, "never positioned beyond the image");
  VF_CANARY();
}
