/* Bounded stand-in (level B, never counted as proved) for the data-section writers: Data::write -> Frame::write ->
 * Points::write / Analogs::write -> SubFrame::write -> Point::write / Channel::write -> ostream::write, all real code,
 * symbolically executed together.  The harness asserts the layout of the data section (appendix A.5, float format):
 * frame after frame, per frame the points (x y z residual as 4-byte little-endian floats) then sub-frame after sub-frame
 * its channels (one float each); nothing else written, position advanced by exactly the section length (C01 C03 C14).
 * Bound: at most 2 frames x 2 points x 2 sub-frames x 2 channels, uniform shape (C05), start offset <= 8. */
#include "vf_harness.h"
VF_GHOSTS
#define NB 2
#define CAPW (8 + NB * (NB * 16 + NB * NB * 4))
#define FL(o) ((unsigned)f->buf[(o)] | ((unsigned)f->buf[(o) + 1] << 8) | ((unsigned)f->buf[(o) + 2] << 16) | ((unsigned)f->buf[(o) + 3] << 24))

void h_B_Data_write(void)
{
  size_t F = nondet_size_t(), P = nondet_size_t(), S = nondet_size_t(), C = nondet_size_t();
  __CPROVER_assume(F <= NB && P <= NB && S <= NB && C <= NB);
  struct Data *self = (struct Data *)vf_alloc(sizeof(*self));
  self->_frames.size = F;
  self->_frames.data = (struct Frame *)vf_alloc(NB * sizeof(struct Frame));
  for (size_t i = 0; i < NB; ++i)
    if (i < F) {
      struct Points *pp = (struct Points *)vf_alloc(sizeof(*pp));
      pp->_points.size = P;
      pp->_points.data = (struct Point *)vf_alloc(NB * sizeof(struct Point));
      for (size_t j = 0; j < NB; ++j)
        if (j < P) {
          pp->_points.data[j]._data.size = 4;
          pp->_points.data[j]._data.data = (float *)vf_alloc(4 * sizeof(float));
        }
      struct Analogs *aa = (struct Analogs *)vf_alloc(sizeof(*aa));
      aa->_subframe.size = S;
      aa->_subframe.data = (struct SubFrame *)vf_alloc(NB * sizeof(struct SubFrame));
      for (size_t k = 0; k < NB; ++k)
        if (k < S) {
          aa->_subframe.data[k]._channels.size = C;
          aa->_subframe.data[k]._channels.data = (struct Channel *)vf_alloc(NB * sizeof(struct Channel));
        }
      self->_frames.data[i]._points = pp;
      self->_frames.data[i]._analogs = aa;
    }
  vf_stream *f = vf_mk_ostream(CAPW);
  size_t p0 = nondet_size_t();
  __CPROVER_assume(p0 <= 8);
  f->pos = (long)p0;
  f->len = p0;
  unsigned char before = f->buf[vf_gb < CAPW ? vf_gb : 0];
  vf_fault_enabled = 0;
  vf_exc = 0;
  Data__write(self, f);
  size_t per_frame = 16 * P + 4 * S * C;
  /*@ C01 C03 C14 : Data_write.section-length */
  __CPROVER_assert(vf_exc == 0 && !f->fail && (size_t)f->pos == p0 + F * per_frame && f->len == (size_t)f->pos, "the data section is frames x (16 x points + 4 x sub-frames x channels) bytes");
  /*@ C14 : Data_write.bytes-before-the-section-untouched */
  __CPROVER_assert(!(vf_gb < p0) || f->buf[vf_gb] == before, "nothing before the start position is written");
  if (vf_gf < F && vf_gj < P) {
    size_t o = p0 + vf_gf * per_frame + 16 * vf_gj;
    const float *d = self->_frames.data[vf_gf]._points->_points.data[vf_gj]._data.data;
    /*@ C01 C03 C12 C14 : Data_write.point-j-of-frame-f */
    __CPROVER_assert(FL(o) == vf_bits_of(d[0]) && FL(o + 4) == vf_bits_of(d[1]) && FL(o + 8) == vf_bits_of(d[2]) && FL(o + 12) == vf_bits_of(d[3]),
                     "point j of frame f: x y z residual at f*frame + 16*j");
  }
  if (vf_gf < F && vf_gk < S && vf_gj < C) {
    size_t o = p0 + vf_gf * per_frame + 16 * P + 4 * (vf_gk * C + vf_gj);
    /*@ C01 C03 C12 C14 : Data_write.channel-j-of-subframe-k-of-frame-f */
    __CPROVER_assert(FL(o) == vf_bits_of(self->_frames.data[vf_gf]._analogs->_subframe.data[vf_gk]._channels.data[vf_gj]._data),
                     "channel j of sub-frame k of frame f: after the points, sub-frame major");
  }
  VF_CANARY();
}

/* ---------------------------------------------------------------- Points::write alone, at most 2 points: a small unit whose bounds do
 * not depend on how the function groups its ostream::write calls (one call per float, per point or per frame) */
void h_B_Points_write(void)
{
  size_t P = nondet_size_t();
  __CPROVER_assume(P <= NB);
  struct Points *pp = (struct Points *)vf_alloc(sizeof(*pp));
  pp->_points.size = P;
  pp->_points.data = (struct Point *)vf_alloc(NB * sizeof(struct Point));
  for (size_t j = 0; j < NB; ++j)
    if (j < P) {
      pp->_points.data[j]._data.size = 4;
      pp->_points.data[j]._data.data = (float *)vf_alloc(4 * sizeof(float));
    }
  vf_stream *f = vf_mk_ostream(8 + NB * 16);
  size_t p0 = nondet_size_t();
  __CPROVER_assume(p0 <= 8);
  f->pos = (long)p0;
  f->len = p0;
  unsigned char before = f->buf[vf_gb < 8 + NB * 16 ? vf_gb : 0];
  vf_fault_enabled = 0;
  vf_exc = 0;
  Points__write(pp, f);
  /*@ C01 C03 C14 : B_Points_write.sixteen-bytes-per-point */
  __CPROVER_assert(vf_exc == 0 && !f->fail && (size_t)f->pos == p0 + 16 * P && f->len == (size_t)f->pos, "16 bytes per point");
  /*@ C14 : B_Points_write.bytes-before-untouched */
  __CPROVER_assert(!(vf_gb < p0) || f->buf[vf_gb] == before, "nothing before the start position is written");
  if (vf_gj < P) {
    size_t o = p0 + 16 * vf_gj;
    const float *d = pp->_points.data[vf_gj]._data.data;
    /*@ C01 C03 C12 C14 : B_Points_write.point-j-is-its-four-floats */
    __CPROVER_assert(FL(o) == vf_bits_of(d[0]) && FL(o + 4) == vf_bits_of(d[1]) && FL(o + 8) == vf_bits_of(d[2]) && FL(o + 12) == vf_bits_of(d[3]),
                     "every point - whatever its residual - is written as its x y z residual");
  }
  VF_CANARY();
}
