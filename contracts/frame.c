/* Frame: construction and the cloning helpers add(...)  (C06 C08 C13). */
#include "vf_harness.h"
VF_GHOSTS

/* Frame(): fresh empty Points and Analogs */
void contract_Frame__ctor(struct Frame *self)
__CPROVER_requires(vf_exc == 0 && __CPROVER_rw_ok(self, sizeof(*self)))
__CPROVER_assigns(*self VF_GHOST_ALLOC)
/*@ C06 C08 C13 : Frame_ctor.fresh-empty-points */
__CPROVER_ensures(__CPROVER_is_fresh(self->_points, sizeof(struct Points)) && self->_points->_points.size == 0)
/*@ C06 C08 C13 : Frame_ctor.fresh-empty-analogs */
__CPROVER_ensures(__CPROVER_is_fresh(self->_analogs, sizeof(struct Analogs)) && self->_analogs->_subframe.size == 0)
/*@ C06 C10 : Frame_ctor.nothrow */ __CPROVER_ensures(vf_exc == 0);

void h_Frame_ctor(void)
{
  struct Frame *self = (struct Frame *)vf_alloc(sizeof(*self));
  Frame__ctor(self);
  __CPROVER_assert(0, "VACUITY_CANARY");
}

/* add(Points): the frame gets its *own* copy of the points */
void contract_Frame__add__Points(struct Frame *self, const struct Points *point3d_frame)
__CPROVER_requires(vf_exc == 0 && __CPROVER_rw_ok(self, sizeof(*self)) && __CPROVER_r_ok(point3d_frame, sizeof(*point3d_frame)))
__CPROVER_requires(VF_POINTS_OK(*point3d_frame, vf_gj))
__CPROVER_assigns(self->_points VF_GHOST_ALLOC)
/*@ C08 C06 C13 : Frame_add_Points.own-copy */
__CPROVER_ensures(__CPROVER_is_fresh(self->_points, sizeof(struct Points)) && self->_points != point3d_frame)
/*@ C06 C01 : Frame_add_Points.same-count */
__CPROVER_ensures(self->_points->_points.size == point3d_frame->_points.size)
/*@ C08 : Frame_add_Points.storage-not-shared */
__CPROVER_ensures(__CPROVER_is_fresh(self->_points->_points.data, VF_VEC_BYTES(point3d_frame->_points, struct Point)))
/*@ C13 C08 : Frame_add_Points.point-valid */
__CPROVER_ensures(vf_gj < point3d_frame->_points.size ==>
                  (__CPROVER_is_fresh(self->_points->_points.data[vf_gj]._data.data, 4 * sizeof(float)) &&
                   __CPROVER_is_fresh(self->_points->_points.data[vf_gj]._name.data, point3d_frame->_points.data[vf_gj]._name.size + 1)))
/*@ C06 C01 : Frame_add_Points.same-content */
__CPROVER_ensures(vf_gj < point3d_frame->_points.size ==>
                  VF_POINT_EQ_AT(self->_points->_points.data[vf_gj], point3d_frame->_points.data[vf_gj], vf_gc))
/*@ C08 : Frame_add_Points.point-storage-not-shared */
__CPROVER_ensures(vf_gj < point3d_frame->_points.size ==>
                  (self->_points->_points.data[vf_gj]._data.data != point3d_frame->_points.data[vf_gj]._data.data &&
                   self->_points->_points.data[vf_gj]._name.data != point3d_frame->_points.data[vf_gj]._name.data))
/*@ C06 C10 : Frame_add_Points.nothrow */ __CPROVER_ensures(vf_exc == 0);

void h_Frame_add_Points(void)
{
  struct Frame *self = (struct Frame *)vf_alloc(sizeof(*self));
  const struct Points *pts = vf_mk_points();
  Frame__add__Points(self, pts);
  __CPROVER_assert(0, "VACUITY_CANARY");
}

void contract_Frame__add__Analogs(struct Frame *self, const struct Analogs *analogs_frame)
__CPROVER_requires(vf_exc == 0 && __CPROVER_rw_ok(self, sizeof(*self)) && __CPROVER_r_ok(analogs_frame, sizeof(*analogs_frame)))
__CPROVER_requires(VF_ANALOGS_OK(*analogs_frame, vf_gk, vf_gj))
__CPROVER_assigns(self->_analogs VF_GHOST_ALLOC)
/*@ C08 C06 C13 : Frame_add_Analogs.own-copy */
__CPROVER_ensures(__CPROVER_is_fresh(self->_analogs, sizeof(struct Analogs)) && self->_analogs != analogs_frame)
/*@ C06 C01 : Frame_add_Analogs.same-subframe-count */
__CPROVER_ensures(self->_analogs->_subframe.size == analogs_frame->_subframe.size)
/*@ C08 : Frame_add_Analogs.storage-not-shared */
__CPROVER_ensures(__CPROVER_is_fresh(self->_analogs->_subframe.data, VF_VEC_BYTES(analogs_frame->_subframe, struct SubFrame)))
/*@ C06 C01 : Frame_add_Analogs.same-channel-count */
__CPROVER_ensures(vf_gk < analogs_frame->_subframe.size ==>
                  self->_analogs->_subframe.data[vf_gk]._channels.size == analogs_frame->_subframe.data[vf_gk]._channels.size)
/*@ C13 C08 : Frame_add_Analogs.channels-valid */
__CPROVER_ensures(vf_gk < analogs_frame->_subframe.size ==>
                  __CPROVER_is_fresh(self->_analogs->_subframe.data[vf_gk]._channels.data,
                                     VF_VEC_BYTES(analogs_frame->_subframe.data[vf_gk]._channels, struct Channel)))
/*@ C13 C08 : Frame_add_Analogs.channel-name-valid */
__CPROVER_ensures((vf_gk < analogs_frame->_subframe.size && vf_gj < analogs_frame->_subframe.data[vf_gk]._channels.size) ==>
                  __CPROVER_is_fresh(self->_analogs->_subframe.data[vf_gk]._channels.data[vf_gj]._name.data,
                                     analogs_frame->_subframe.data[vf_gk]._channels.data[vf_gj]._name.size + 1))
/*@ C06 C01 : Frame_add_Analogs.same-content */
__CPROVER_ensures((vf_gk < analogs_frame->_subframe.size && vf_gj < analogs_frame->_subframe.data[vf_gk]._channels.size) ==>
                  VF_CHANNEL_EQ_AT(self->_analogs->_subframe.data[vf_gk]._channels.data[vf_gj],
                                   analogs_frame->_subframe.data[vf_gk]._channels.data[vf_gj], vf_gc))
/*@ C08 : Frame_add_Analogs.channel-storage-not-shared */
__CPROVER_ensures(vf_gk < analogs_frame->_subframe.size ==>
                  self->_analogs->_subframe.data[vf_gk]._channels.data != analogs_frame->_subframe.data[vf_gk]._channels.data)
/*@ C06 C10 : Frame_add_Analogs.nothrow */ __CPROVER_ensures(vf_exc == 0);

void h_Frame_add_Analogs(void)
{
  struct Frame *self = (struct Frame *)vf_alloc(sizeof(*self));
  const struct Analogs *a = vf_mk_analogs();
  Frame__add__Analogs(self, a);
  __CPROVER_assert(0, "VACUITY_CANARY");
}

/* add(Frame) = add(points, analogs) of the argument: both parts cloned */
#define VF_FRAME_OK(f, k, j) (__CPROVER_r_ok((f)._points, sizeof(struct Points)) && VF_POINTS_OK(*(f)._points, j) && \
                              __CPROVER_r_ok((f)._analogs, sizeof(struct Analogs)) && VF_ANALOGS_OK(*(f)._analogs, k, j))

/* The two halves are proved in separate queries (both replaced contracts in one query exhaust 12 GB):
 * in each, the other half's callee is replaced by its frame-only contract. */
void contract_frameonly_Frame__add__Points(struct Frame *self, const struct Points *point3d_frame)
__CPROVER_requires(vf_exc == 0 && __CPROVER_rw_ok(self, sizeof(*self)) && __CPROVER_r_ok(point3d_frame, sizeof(*point3d_frame)))
__CPROVER_assigns(self->_points VF_GHOST_ALLOC)
__CPROVER_ensures(vf_exc == 0);

void contract_frameonly_Frame__add__Analogs(struct Frame *self, const struct Analogs *analogs_frame)
__CPROVER_requires(vf_exc == 0 && __CPROVER_rw_ok(self, sizeof(*self)) && __CPROVER_r_ok(analogs_frame, sizeof(*analogs_frame)))
__CPROVER_assigns(self->_analogs VF_GHOST_ALLOC)
__CPROVER_ensures(vf_exc == 0);

void contract_P_Frame__add__Frame(struct Frame *self, const struct Frame *frame)
__CPROVER_requires(vf_exc == 0 && __CPROVER_rw_ok(self, sizeof(*self)) && __CPROVER_r_ok(frame, sizeof(*frame)))
__CPROVER_requires(__CPROVER_r_ok(frame->_points, sizeof(struct Points)) && VF_POINTS_OK(*frame->_points, vf_gj) &&
                   __CPROVER_r_ok(frame->_analogs, sizeof(struct Analogs)))
__CPROVER_assigns(self->_points, self->_analogs VF_GHOST_ALLOC)
/*@ C08 C06 C13 : Frame_add_Frame.own-points */
__CPROVER_ensures(__CPROVER_is_fresh(self->_points, sizeof(struct Points)) && self->_points != frame->_points)
/*@ C06 C01 : Frame_add_Frame.same-point-count */
__CPROVER_ensures(self->_points->_points.size == frame->_points->_points.size)
/*@ C13 C08 : Frame_add_Frame.points-storage */
__CPROVER_ensures(__CPROVER_is_fresh(self->_points->_points.data, VF_VEC_BYTES(frame->_points->_points, struct Point)))
/*@ C13 C08 : Frame_add_Frame.point-valid */
__CPROVER_ensures(vf_gj < frame->_points->_points.size ==>
                  (__CPROVER_is_fresh(self->_points->_points.data[vf_gj]._data.data, 4 * sizeof(float)) &&
                   __CPROVER_is_fresh(self->_points->_points.data[vf_gj]._name.data, frame->_points->_points.data[vf_gj]._name.size + 1)))
/*@ C06 C01 : Frame_add_Frame.same-points */
__CPROVER_ensures(vf_gj < frame->_points->_points.size ==>
                  VF_POINT_EQ_AT(self->_points->_points.data[vf_gj], frame->_points->_points.data[vf_gj], vf_gc))
/*@ C06 C10 : Frame_add_Frame.nothrow-p */ __CPROVER_ensures(vf_exc == 0);

void h_P_Frame_add_Frame(void)
{
  struct Frame *self = (struct Frame *)vf_alloc(sizeof(*self));
  struct Frame *frame = (struct Frame *)vf_alloc(sizeof(*frame));
  frame->_points = vf_mk_points();
  frame->_analogs = (struct Analogs *)vf_alloc(sizeof(struct Analogs));
  Frame__add__Frame(self, frame);
  VF_CANARY();
}

void contract_A_Frame__add__Frame(struct Frame *self, const struct Frame *frame)
__CPROVER_requires(vf_exc == 0 && __CPROVER_rw_ok(self, sizeof(*self)) && __CPROVER_r_ok(frame, sizeof(*frame)))
__CPROVER_requires(__CPROVER_r_ok(frame->_analogs, sizeof(struct Analogs)) && VF_ANALOGS_OK(*frame->_analogs, vf_gk, vf_gj) &&
                   __CPROVER_r_ok(frame->_points, sizeof(struct Points)))
__CPROVER_assigns(self->_points, self->_analogs VF_GHOST_ALLOC)
/*@ C08 C06 C13 : Frame_add_Frame.own-analogs */
__CPROVER_ensures(__CPROVER_is_fresh(self->_analogs, sizeof(struct Analogs)) && self->_analogs != frame->_analogs)
/*@ C06 C01 : Frame_add_Frame.same-subframe-count */
__CPROVER_ensures(self->_analogs->_subframe.size == frame->_analogs->_subframe.size)
/*@ C13 C08 : Frame_add_Frame.subframe-storage */
__CPROVER_ensures(__CPROVER_is_fresh(self->_analogs->_subframe.data, VF_VEC_BYTES(frame->_analogs->_subframe, struct SubFrame)))
/*@ C13 C08 : Frame_add_Frame.channels-valid */
__CPROVER_ensures(vf_gk < frame->_analogs->_subframe.size ==>
                  __CPROVER_is_fresh(self->_analogs->_subframe.data[vf_gk]._channels.data,
                                     VF_VEC_BYTES(frame->_analogs->_subframe.data[vf_gk]._channels, struct Channel)))
/*@ C13 C08 : Frame_add_Frame.channel-name-valid */
__CPROVER_ensures((vf_gk < frame->_analogs->_subframe.size && vf_gj < frame->_analogs->_subframe.data[vf_gk]._channels.size) ==>
                  __CPROVER_is_fresh(self->_analogs->_subframe.data[vf_gk]._channels.data[vf_gj]._name.data,
                                     frame->_analogs->_subframe.data[vf_gk]._channels.data[vf_gj]._name.size + 1))
/*@ C06 C01 : Frame_add_Frame.same-channel-count */
__CPROVER_ensures(vf_gk < frame->_analogs->_subframe.size ==>
                  self->_analogs->_subframe.data[vf_gk]._channels.size == frame->_analogs->_subframe.data[vf_gk]._channels.size)
/*@ C06 C01 : Frame_add_Frame.same-samples */
__CPROVER_ensures((vf_gk < frame->_analogs->_subframe.size && vf_gj < frame->_analogs->_subframe.data[vf_gk]._channels.size) ==>
                  VF_CHANNEL_EQ_AT(self->_analogs->_subframe.data[vf_gk]._channels.data[vf_gj],
                                   frame->_analogs->_subframe.data[vf_gk]._channels.data[vf_gj], vf_gc))
/*@ C06 C10 : Frame_add_Frame.nothrow-a */ __CPROVER_ensures(vf_exc == 0);

void h_A_Frame_add_Frame(void)
{
  struct Frame *self = (struct Frame *)vf_alloc(sizeof(*self));
  struct Frame *frame = (struct Frame *)vf_alloc(sizeof(*frame));
  frame->_points = (struct Points *)vf_alloc(sizeof(struct Points));
  frame->_analogs = vf_mk_analogs();
  Frame__add__Frame(self, frame);
  VF_CANARY();
}
