/* Model self-verification: the executable bodies of the std model (model/vf_std.c) against the contracts that the proof
 * units use in their place (contracts/model_contracts.h).  The model's loops carry loop contracts that are compiled in for
 * these units only (-DVF_MODEL_LOOP_CONTRACTS). */
#include "vf_harness.h"
VF_GHOSTS

void h_model_stream_write(void)
{
  vf_stream *f = (vf_stream *)vf_alloc(sizeof(*f));
  size_t cap = nondet_size_t();
  __CPROVER_assume(cap >= 1 && cap <= 8192 && vf_gb < cap);   /* the ghost offset names a byte of the device */
  f->cap = cap;
  f->buf = (unsigned char *)vf_alloc(cap ? cap : 1);
  long n = nondet_long();
  __CPROVER_assume(n >= 0 && n <= (long)VF_MAXSTR);
  const char *src = (const char *)vf_alloc(n ? (size_t)n : 1);
  vf_fault_enabled = 0;
  vf_stream_write(f, src, n);
  VF_CANARY();
}

void h_model_stream_read(void)
{
  vf_stream *f = (vf_stream *)vf_alloc(sizeof(*f));
  size_t len = nondet_size_t();
  __CPROVER_assume(len <= 8192);
  f->len = len;
  f->cap = len;
  f->buf = (unsigned char *)vf_alloc(len ? len : 1);
  long n = nondet_long();
  __CPROVER_assume(n >= 0 && n <= (long)VF_MAXSTR);
  char *dst = (char *)vf_alloc(n ? (size_t)n : 1);
  vf_stream_read(f, dst, n);
  VF_CANARY();
}

void h_model_string_ctor_copy(void)
{
  vf_string *s = (vf_string *)vf_alloc(sizeof(*s));
  vf_string *o = (vf_string *)vf_alloc(sizeof(*o));
  vf_mk_string(o);
  vf_string_ctor_copy(s, o);
  VF_CANARY();
}

void h_model_string_ctor_cstr(void)
{
  vf_string *s = (vf_string *)vf_alloc(sizeof(*s));
  __CPROVER_assume(vf_gn <= VF_MAXSTR);
  char *c = (char *)vf_alloc(vf_gn + 1);
  c[vf_gn] = 0;
  vf_string_ctor_cstr(s, c);
  VF_CANARY();
}
