/* Header round trip on real code both ways (C01 C04): the real Header::write into a 512-byte device, then the real
 * Header::read on the bytes just written (read helpers = the value stubs of value_stubs.h = their proved contracts), compared
 * field by field.  Header::write and Header::read have only constant-bound loops (135 / 22 reserved words, 18 / 9 / 18
 * events), unwound completely with unwinding assertions on: a complete symbolic execution over every header whose words
 * fit their 16-bit cells (level PB). */
#include "vf_harness.h"
VF_GHOSTS
long nondet_long(void);
#include "value_stubs.h"

static struct Header *mk_header(_Bool symbolic_labels)
{
  struct Header *h = (struct Header *)vf_alloc(sizeof(*h));
  h->_eventsTime.size = 18;
  h->_eventsTime.data = (float *)vf_alloc(18 * sizeof(float));
  h->_eventsDisplay.size = 9;
  h->_eventsDisplay.data = (size_t *)vf_alloc(9 * sizeof(size_t));
  h->_eventsLabel.size = 18;
  h->_eventsLabel.data = (vf_string *)vf_alloc(18 * sizeof(vf_string));
  for (int i = 0; i < 18; ++i) {
    size_t m = 0;
    if (symbolic_labels) { m = nondet_size_t(); __CPROVER_assume(m <= 4); }
    h->_eventsLabel.data[i].size = m;
    h->_eventsLabel.data[i].data = (char *)vf_alloc(5);
    h->_eventsLabel.data[i].data[m] = 0;
    if (symbolic_labels) for (int j = 0; j < 4; ++j) if ((size_t)j < m) __CPROVER_assume(h->_eventsLabel.data[i].data[j] != 0);
  }
  return h;
}

void h_Header_roundtrip(void)
{
  struct Header *self = mk_header(1);
  /* the words fit their 16-bit cells (beyond: findings C17), the header is not preceded by zero bytes */
  __CPROVER_assume(self->_parametersAddress >= 1 && self->_parametersAddress <= 255);
  __CPROVER_assume(self->_nb3dPoints <= 65535 && self->_nbAnalogsMeasurement <= 65535 && self->_firstFrame <= 65534 && self->_lastFrame <= 65534);
  __CPROVER_assume(self->_nbMaxInterpGap <= 65535 && self->_dataStart <= 65535 && self->_nbAnalogByFrame <= 65535);
  __CPROVER_assume(self->_keyLabelPresent <= 65535 && self->_firstBlockKeyLabel <= 65535 && self->_fourCharPresent <= 65535 && self->_nbEvents <= 65535);
  __CPROVER_assume(vf_gj >= 9 || self->_eventsDisplay.data[vf_gj] <= 65535);
  vf_stream *f = vf_mk_ostream(512);
  vf_fault_enabled = 0; vf_exc = 0;
  Header__write(self, f);
  __CPROVER_assert(vf_exc == 0 && !f->fail && f->pos == 512, "512 bytes written");
  struct c3d *file = (struct c3d *)vf_alloc(sizeof(*file));
  file->vf_base = *f;
  file->vf_base.pos = 0;
  file->vf_base.len = 512;
  file->vf_base.writable = 0;
  file->m_nByteToRead_float = 4;
  file->c_float = (char *)vf_alloc(5);
  struct Header *back = mk_header(0);
  back->_nbOfZerosBeforeHeader = 0;
  Header__read(back, file);
  /*@ C01 C04 : Header_roundtrip.accepted */
  __CPROVER_assert(vf_exc == 0 && file->vf_base.pos == 512 && !file->vf_base.fail, "the header just written is read back, all 512 bytes");
  /*@ C01 C04 C05 : Header_roundtrip.counts */
  __CPROVER_assert(back->_parametersAddress == 2 /* the writer always puts the parameters in block 2 */ && back->_nb3dPoints == self->_nb3dPoints &&
                   back->_nbAnalogsMeasurement == self->_nbAnalogsMeasurement && back->_nbAnalogByFrame == self->_nbAnalogByFrame, "point count, samples, sub-frames survive; parameter block = 2 (layout chosen by the writer)");
  /*@ C01 C04 C05 : Header_roundtrip.frame-range */
  __CPROVER_assert(back->_firstFrame == self->_firstFrame && back->_lastFrame == self->_lastFrame, "first / last frame survive (1-based on file, 0-based in memory)");
  /*@ C01 C04 C12 : Header_roundtrip.rate-and-scale-bits */
  __CPROVER_assert(vf_bits_of(back->_frameRate) == vf_bits_of(self->_frameRate) && back->_scaleFactor == self->_scaleFactor, "rate and scale word survive bit for bit");
  /*@ C01 C04 : Header_roundtrip.other-words */
  __CPROVER_assert(back->_nbMaxInterpGap == self->_nbMaxInterpGap && back->_dataStart == self->_dataStart && back->_keyLabelPresent == self->_keyLabelPresent &&
                   back->_firstBlockKeyLabel == self->_firstBlockKeyLabel && back->_fourCharPresent == self->_fourCharPresent && back->_nbEvents == self->_nbEvents,
                   "interpolation gap, data start, key-label words, event count survive");
  /*@ C01 C04 C12 : Header_roundtrip.event-times-and-flags */
  __CPROVER_assert((vf_gj >= 18 || vf_bits_of(back->_eventsTime.data[vf_gj]) == vf_bits_of(self->_eventsTime.data[vf_gj])) &&
                   (vf_gj >= 9 || back->_eventsDisplay.data[vf_gj] == self->_eventsDisplay.data[vf_gj]), "event times (bit for bit) and display words survive");
  /*@ C01 C04 : Header_roundtrip.event-labels */
  __CPROVER_assert(vf_gj >= 18 || (back->_eventsLabel.data[vf_gj].size == self->_eventsLabel.data[vf_gj].size &&
                                    (vf_gc >= self->_eventsLabel.data[vf_gj].size || back->_eventsLabel.data[vf_gj].data[vf_gc] == self->_eventsLabel.data[vf_gj].data[vf_gc])),
                   "event labels survive");
  VF_CANARY();
}
