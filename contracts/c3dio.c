/* c3d::write over a stream with open / write / close faults (C15); c3d::c3d() and ~c3d (C13 allocation kinds). */
#include "vf_harness.h"
VF_GHOSTS

/* Section writers as c3d::write sees them: they only touch the stream, and any failure inside them is
 * recorded in the ghost flag vf_io_error_seen (the model's write sets it whenever it sets failbit/badbit).
 * ASSUMED for Parameters::write and Data::write; Header::write is held to it in unit Header_write_io. */
#define IO_CONTRACT(NAME, SELF_T)                                                                                      \
  void contract_io_##NAME(const SELF_T *self, vf_stream *f)                                                            \
  __CPROVER_requires(vf_exc == 0 && __CPROVER_r_ok(self, sizeof(*self)) && __CPROVER_rw_ok(f, sizeof(*f)))             \
  __CPROVER_assigns(f->pos, f->len, f->fail, f->eof, vf_io_error_seen)                                                 \
  __CPROVER_ensures(vf_exc == 0 && f->eof == __CPROVER_old(f->eof)) /* output operations never set eofbit */           \
  __CPROVER_ensures(__CPROVER_old(f->fail) ==> f->fail)                                                                \
  __CPROVER_ensures((f->fail && !__CPROVER_old(f->fail)) ==> vf_io_error_seen)                                         \
  __CPROVER_ensures(__CPROVER_old(vf_io_error_seen) ==> vf_io_error_seen)                                              \
  __CPROVER_ensures(vf_io_error_seen ==> (__CPROVER_old(vf_io_error_seen) || f->fail));

IO_CONTRACT(Header__write, struct Header)
IO_CONTRACT(Data__write, struct Data)
/* Parameters::write: the same, and the position where the parameter section ended is recorded (the data start there) */
long vf_rec_params_end;
void contract_io_Parameters__write(const struct Parameters *self, vf_stream *f)
__CPROVER_requires(vf_exc == 0 && __CPROVER_r_ok(self, sizeof(*self)) && __CPROVER_rw_ok(f, sizeof(*f)))
__CPROVER_assigns(f->pos, f->len, f->fail, f->eof, vf_io_error_seen, vf_rec_params_end)
__CPROVER_ensures(vf_exc == 0 && vf_rec_params_end == f->pos && f->eof == __CPROVER_old(f->eof))
__CPROVER_ensures(__CPROVER_old(f->fail) ==> f->fail)
__CPROVER_ensures((f->fail && !__CPROVER_old(f->fail)) ==> vf_io_error_seen)
__CPROVER_ensures(__CPROVER_old(vf_io_error_seen) ==> vf_io_error_seen)
__CPROVER_ensures(vf_io_error_seen ==> (__CPROVER_old(vf_io_error_seen) || f->fail))
/* a successful parameter section ends at least one block after the header and within the device */
__CPROVER_ensures(!f->fail ==> (f->pos >= 1024 && f->pos <= 4096 && f->len >= 18));

void contract_c3d__write(const struct c3d *self, const vf_string *filePath)
__CPROVER_requires(vf_exc == 0 && __CPROVER_r_ok(self, sizeof(*self)) && __CPROVER_r_ok(self->_header, sizeof(struct Header)) &&
                   __CPROVER_r_ok(self->_parameters, sizeof(struct Parameters)) && __CPROVER_r_ok(self->_data, sizeof(struct Data)) &&
                   __CPROVER_r_ok(filePath, sizeof(*filePath)) && !vf_io_error_seen)
__CPROVER_assigns(vf_exc, vf_io_error_seen, vf_rec_params_end, __CPROVER_object_whole(vf_file_img))
/*@ C03 : c3d_write.header-data-start-word-points-at-the-data */
__CPROVER_ensures(!vf_io_error_seen ==> ((unsigned)vf_file_img[16] | ((unsigned)vf_file_img[17] << 8)) == (unsigned)(vf_rec_params_end / 512 + 1))
/*@ C15 : c3d_write.failure-is-reported */
__CPROVER_ensures(vf_io_error_seen ==> vf_exc == VF_EXC_ios_failure)
/*@ C15 : c3d_write.success-returns-normally */
__CPROVER_ensures(!vf_io_error_seen ==> vf_exc == 0);

void h_c3d_write(void)
{
  struct c3d *self = (struct c3d *)vf_alloc(sizeof(*self));
  self->_header = (struct Header *)vf_alloc(sizeof(struct Header));
  self->_parameters = (struct Parameters *)vf_alloc(sizeof(struct Parameters));
  self->_data = (struct Data *)vf_alloc(sizeof(struct Data));
  vf_string *path = (vf_string *)vf_alloc(sizeof(*path));
  vf_mk_string(path);
  /* the destination: may be unopenable; any capacity; every write and the final flush may fail */
  vf_file_openable = nondet_bool();
  vf_file_cap = nondet_size_t();
  __CPROVER_assume(vf_file_cap <= 4096);
  vf_file_img = (unsigned char *)vf_alloc(vf_file_cap ? vf_file_cap : 1);
  vf_file_len = 0;
  vf_fault_enabled = 1;
  vf_io_error_seen = 0;
  c3d__write(self, path);
  VF_CANARY();
}

/* ~c3d: the scratch buffer came from new char[] */
void contract_c3d__dtor(struct c3d *self)
__CPROVER_requires(vf_exc == 0 && __CPROVER_rw_ok(self, sizeof(*self)) && __CPROVER_rw_ok(self->c_float, 5) &&
                   vf_trk_ptr == self->c_float && vf_trk_kind == 1)
__CPROVER_assigns(vf_trk_ptr)
__CPROVER_frees(self->c_float)
/*@ C13 C10 : c3d_dtor.nothrow */ __CPROVER_ensures(vf_exc == 0);

void h_c3d_dtor(void)
{
  struct c3d *self = (struct c3d *)vf_alloc(sizeof(*self));
  self->c_float = (char *)malloc(5); /* as allocated by both constructors: new char[m_nByteToRead_float + 1] */
  __CPROVER_assume(self->c_float != 0);
  vf_trk_ptr = self->c_float;
  vf_trk_kind = 1;
  c3d__dtor(self);
  VF_CANARY();
}

/* c3d::c3d(): allocates the scratch buffer with new char[5]; header, parameters and data objects with new */
void contract_c3d__ctor__void(struct c3d *self)
__CPROVER_requires(vf_exc == 0 && __CPROVER_rw_ok(self, sizeof(*self)) && vf_trk_ptr == 0 && vf_max_alloc == 0)
__CPROVER_assigns(*self, vf_trk_ptr, vf_trk_kind, vf_max_alloc)
/*@ C13 : c3d_ctor.scratch-buffer-5-bytes */ __CPROVER_ensures(self->m_nByteToRead_float == 4 && __CPROVER_rw_ok(self->c_float, 5))
/*@ C13 : c3d_ctor.scratch-buffer-is-array-new */ __CPROVER_ensures(vf_trk_ptr == self->c_float ==> vf_trk_kind == 1)
/*@ C13 C05 : c3d_ctor.sections-exist */
__CPROVER_ensures(__CPROVER_rw_ok(self->_header, sizeof(struct Header)) && __CPROVER_rw_ok(self->_parameters, sizeof(struct Parameters)) &&
                  __CPROVER_rw_ok(self->_data, sizeof(struct Data)))
/*@ C13 C10 : c3d_ctor.nothrow */ __CPROVER_ensures(vf_exc == 0);

/* the three section constructors are not under test here (frame-only contracts) */
void contract_any_Header__ctor__void(struct Header *self)
__CPROVER_requires(__CPROVER_rw_ok(self, sizeof(*self))) __CPROVER_assigns(*self) __CPROVER_ensures(vf_exc == 0);
void contract_any_Parameters__ctor__void(struct Parameters *self)
__CPROVER_requires(__CPROVER_rw_ok(self, sizeof(*self))) __CPROVER_assigns(*self) __CPROVER_ensures(vf_exc == 0);
void contract_any_Data__ctor__void(struct Data *self)
__CPROVER_requires(__CPROVER_rw_ok(self, sizeof(*self))) __CPROVER_assigns(*self) __CPROVER_ensures(vf_exc == 0);

void h_c3d_ctor(void)
{
  struct c3d *self = (struct c3d *)vf_alloc(sizeof(*self));
  vf_trk_ptr = 0;
  vf_max_alloc = 0;
  c3d__ctor__void(self);
  VF_CANARY();
}
