/* Model self-verification, vector<Frame>: the executable bodies of push_back / resize(n) / resize(n, x) that the lowered file
 * instantiates from the macro VF_VEC_DEFINE_O of model/vf_std.h (element hooks: the lowered Frame constructors), enforced
 * against the contracts the Data::frame units use in their place (contracts/model_contracts.h).  The macro's loops carry no
 * loop contract, so these are BOUNDED units (level B, never counted as proved): at most VN stored frames / VN frames after
 * the call, loops unwound with unwinding assertions. */
#include "vf_harness.h"
VF_GHOSTS
#define VN 3

static vf_vec_Frame *mk_vec_frames(void)
{
  vf_vec_Frame *v = (vf_vec_Frame *)vf_alloc(sizeof(*v));
  size_t n = nondet_size_t();
  __CPROVER_assume(n <= VN);
  v->size = n;
  v->data = (struct Frame *)vf_alloc((n ? n : 1) * sizeof(struct Frame));
  for (size_t i = 0; i < VN; ++i)
    if (i < n) vf_mk_frame_in(&v->data[i]);
  return v;
}

void h_B_model_vec_Frame_push_back(void)
{
  vf_vec_Frame *v = mk_vec_frames();
  struct Frame *x = (struct Frame *)vf_alloc(sizeof(*x));
  vf_mk_frame_in(x);
  vf_exc = 0;
  vf_vec_Frame_push_back(v, x);
  VF_CANARY();
}

void h_B_model_vec_Frame_resize(void)
{
  vf_vec_Frame *v = mk_vec_frames();
  size_t n = nondet_size_t();
  __CPROVER_assume(n <= VN);
  vf_exc = 0;
  vf_vec_Frame_resize(v, n);
  VF_CANARY();
}

void h_B_model_vec_Frame_resize_fill(void)
{
  vf_vec_Frame *v = mk_vec_frames();
  struct Frame *x = (struct Frame *)vf_alloc(sizeof(*x));
  vf_mk_frame_in(x);
  size_t n = nondet_size_t();
  __CPROVER_assume(n <= VN);
  vf_exc = 0;
  vf_vec_Frame_resize_fill(v, n, x);
  VF_CANARY();
}
