/* Name look-ups: first element with exactly that name, or invalid_argument (C11), for containers of any size.
 * String equality is abstracted by a ghost oracle vf_match[k] ("element k carries the searched name"); the look-up
 * loops are closed by loop contracts.  The oracle is tied to the real comparison by the replaced contract of
 * string::compare, which answers 0 exactly for the elements the oracle marks (the element index is recovered from
 * the pointer offset of the name inside the container's storage). */
#include "vf_harness.h"
VF_GHOSTS
_Bool vf_match[100000];
/* one oracle contract per element type: the element index is (offset of the name inside the storage) / sizeof(element),
 * with compile-time constants (a division by a symbolic element size made the query take > 30 min) */
#define ORACLE(TAG, ELEM_T)                                                                                            \
  int contract_oracle_##TAG##_vf_string_compare(const vf_string *a, const vf_string *b)                                \
  __CPROVER_requires(__CPROVER_r_ok(a, sizeof(*a)) && __CPROVER_r_ok(b, sizeof(*b)) &&                                  \
                     (__CPROVER_POINTER_OFFSET(a) - __builtin_offsetof(ELEM_T, _name)) / sizeof(ELEM_T) < 100000)       \
  __CPROVER_assigns()                                                                                                  \
  __CPROVER_ensures((__CPROVER_return_value == 0) ? vf_match[(__CPROVER_POINTER_OFFSET(a) - __builtin_offsetof(ELEM_T, _name)) / sizeof(ELEM_T)] \
                                                  : !vf_match[(__CPROVER_POINTER_OFFSET(a) - __builtin_offsetof(ELEM_T, _name)) / sizeof(ELEM_T)]);
ORACLE(Point, struct Point)
ORACLE(Channel, struct Channel)
ORACLE(Parameter, struct Parameter)
ORACLE(Group, struct Group)

#define LOOKUP(FN, SELF_T, FIELD, ELEM_T, NAME_T)                                                                      \
  size_t contract_##FN(const SELF_T *self, NAME_T name)                                                                \
  __CPROVER_requires(vf_exc == 0 && __CPROVER_r_ok(self, sizeof(*self)) && VF_VEC_OK(self->FIELD, ELEM_T) &&            \
                     __CPROVER_r_ok(name, sizeof(vf_string)))                                                          \
  __CPROVER_assigns(vf_exc)                                                                                            \
  __CPROVER_ensures(vf_exc == 0 || vf_exc == VF_EXC_invalid_argument)                                                  \
  __CPROVER_ensures(vf_exc == 0 ==> (__CPROVER_return_value < self->FIELD.size && vf_match[__CPROVER_return_value]))   \
  __CPROVER_ensures((vf_exc == 0 && vf_gj < __CPROVER_return_value) ==> !vf_match[vf_gj])                              \
  __CPROVER_ensures((vf_exc != 0 && vf_gj < self->FIELD.size) ==> !vf_match[vf_gj]);                                   \
  void h_##FN(void)                                                                                                    \
  {                                                                                                                    \
    SELF_T *self = (SELF_T *)vf_alloc(sizeof(*self));                                                                  \
    VF_MK_VEC(self->FIELD, ELEM_T);                                                                                    \
    vf_string *name = (vf_string *)vf_alloc(sizeof(*name));                                                            \
    FN(self, name);                                                                                                    \
    VF_CANARY();                                                                                                       \
  }

LOOKUP(Points__pointIdx, struct Points, _points, struct Point, const vf_string *) /*@ C11 C13 : Points_pointIdx */
LOOKUP(SubFrame__channelIdx, struct SubFrame, _channels, struct Channel, const vf_string *) /*@ C11 C13 : SubFrame_channelIdx */
LOOKUP(Group__parameterIdx, struct Group, _parameters, struct Parameter, vf_string *) /*@ C11 C13 : Group_parameterIdx */
LOOKUP(Parameters__groupIdx, struct Parameters, _groups, struct Group, const vf_string *) /*@ C11 C13 : Parameters_groupIdx */

/* ---------------------------------------------------------------- Group::parameter(p): replace the first parameter of that
 * name in place, else append; an untyped parameter is refused and nothing changes (C09 C10) */
int vf_gp_step;      /* 0 nothing, 1 appended, 2 assigned */
size_t vf_gp_index;  /* where it was assigned */
void contract_rec_vf_vec_Parameter_push_back(vf_vec_Parameter *v, const struct Parameter *x)
__CPROVER_requires(vf_gp_step == 0 && __CPROVER_rw_ok(v, sizeof(*v)) && __CPROVER_r_ok(x, sizeof(*x)))
__CPROVER_assigns(vf_gp_step)
__CPROVER_ensures(vf_gp_step == 1);

void contract_rec_Parameter__assign(struct Parameter *self, const struct Parameter *o)
__CPROVER_requires(vf_gp_step == 0 && __CPROVER_rw_ok(self, sizeof(*self)) && __CPROVER_r_ok(o, sizeof(*o)) && vf_exc == 0)
__CPROVER_assigns(vf_gp_step, vf_gp_index)
__CPROVER_ensures(vf_gp_step == 2 && vf_gp_index == __CPROVER_POINTER_OFFSET(self) / sizeof(struct Parameter) && vf_exc == 0);

void contract_Group__parameter__Parameter(struct Group *self, const struct Parameter *p)
__CPROVER_requires(vf_exc == 0 && vf_gp_step == 0 && __CPROVER_rw_ok(self, sizeof(*self)) && VF_VEC_OK(self->_parameters, struct Parameter) &&
                   __CPROVER_r_ok(p, sizeof(*p)))
__CPROVER_assigns(vf_exc, vf_gp_step, vf_gp_index)
/*@ C09 C10 : Group_parameter.untyped-refused-unchanged */
__CPROVER_ensures(p->_data_type == 10000 ==> (vf_exc == VF_EXC_runtime_error && vf_gp_step == 0))
/*@ C09 : Group_parameter.typed-accepted */ __CPROVER_ensures(p->_data_type != 10000 ==> vf_exc == 0)
/*@ C09 : Group_parameter.replaced-at-first-match */
__CPROVER_ensures((vf_exc == 0 && vf_gp_step == 2) ==> (vf_gp_index < self->_parameters.size && vf_match[vf_gp_index] &&
                                                         (vf_gj < vf_gp_index ==> !vf_match[vf_gj])))
/*@ C09 : Group_parameter.appended-only-when-absent */
__CPROVER_ensures((vf_exc == 0 && vf_gp_step == 1) ==> (vf_gj < self->_parameters.size ==> !vf_match[vf_gj]))
/*@ C09 : Group_parameter.exactly-one-store */ __CPROVER_ensures(vf_exc == 0 ==> (vf_gp_step == 1 || vf_gp_step == 2));

void h_Group_parameter(void)
{
  struct Group *self = (struct Group *)vf_alloc(sizeof(*self));
  VF_MK_VEC(self->_parameters, struct Parameter);
  struct Parameter *p = (struct Parameter *)vf_alloc(sizeof(*p));
  vf_gp_step = 0;
  Group__parameter__Parameter(self, p);
  VF_CANARY();
}
