/* Data::frame(frame, idx): append / replace / extend  (C06 C08 C10 C13). */
#include "vf_harness.h"
VF_GHOSTS

#define VF_FRAME_OK(f, k, j) (__CPROVER_r_ok((f)._points, sizeof(struct Points)) && VF_POINTS_OK(*(f)._points, j) && \
                              __CPROVER_r_ok((f)._analogs, sizeof(struct Analogs)) && VF_ANALOGS_OK(*(f)._analogs, k, j))

/* what Data::frame needs from Frame::add(Frame) in the structural query: both parts are fresh clones.
 * (Implied by contract_P_/contract_A_Frame__add__Frame of frame.c, which are proved against the real function.) */
void contract_own_Frame__add__Frame(struct Frame *self, const struct Frame *frame)
__CPROVER_requires(vf_exc == 0 && __CPROVER_rw_ok(self, sizeof(*self)) && __CPROVER_r_ok(frame, sizeof(*frame)))
__CPROVER_requires(VF_FRAME_OK(*frame, vf_gk, vf_gj))
__CPROVER_assigns(self->_points, self->_analogs VF_GHOST_ALLOC)
__CPROVER_ensures(__CPROVER_is_fresh(self->_points, sizeof(struct Points)) && self->_points != frame->_points)
__CPROVER_ensures(__CPROVER_is_fresh(self->_analogs, sizeof(struct Analogs)) && self->_analogs != frame->_analogs)
__CPROVER_ensures(self->_points->_points.size == frame->_points->_points.size)
__CPROVER_ensures(self->_analogs->_subframe.size == frame->_analogs->_subframe.size)
__CPROVER_ensures(vf_exc == 0);

/* Frame(): fresh empty parts (proved in unit Frame_ctor) */
void contract_Frame__ctor_fresh(struct Frame *self)
__CPROVER_requires(vf_exc == 0 && __CPROVER_rw_ok(self, sizeof(*self)))
__CPROVER_assigns(self->_points, self->_analogs)
__CPROVER_ensures(__CPROVER_is_fresh(self->_points, sizeof(struct Points)) && self->_points->_points.size == 0)
__CPROVER_ensures(__CPROVER_is_fresh(self->_analogs, sizeof(struct Analogs)) && self->_analogs->_subframe.size == 0)
__CPROVER_ensures(vf_exc == 0);

#define OLDN __CPROVER_old(self->_frames.size)
#define TARGET (idx == SIZE_MAX ? OLDN : idx)
#define OLD_PTS(i) __CPROVER_old(self->_frames.data[(i) < self->_frames.size ? (i) : 0]._points)
#define OLD_ANA(i) __CPROVER_old(self->_frames.data[(i) < self->_frames.size ? (i) : 0]._analogs)

void contract_Data__frame__Frame_sz(struct Data *self, const struct Frame *frame, size_t idx)
__CPROVER_requires(vf_exc == 0 && __CPROVER_rw_ok(self, sizeof(*self)) && VF_VEC_OK(self->_frames, struct Frame) &&
                   self->_frames.size < VF_MAXN && (idx == SIZE_MAX || idx < VF_MAXN))
__CPROVER_requires(__CPROVER_r_ok(frame, sizeof(*frame)) && VF_FRAME_OK(*frame, vf_gk, vf_gj))
__CPROVER_assigns(self->_frames.data, self->_frames.size, __CPROVER_object_whole(self->_frames.data) VF_GHOST_ALLOC)
__CPROVER_frees(self->_frames.data)
/*@ C06 : Data_frame.append-grows-by-one */ __CPROVER_ensures(idx == SIZE_MAX ==> self->_frames.size == OLDN + 1)
/*@ C06 : Data_frame.replace-keeps-count */ __CPROVER_ensures(idx < OLDN ==> self->_frames.size == OLDN)
/*@ C06 : Data_frame.extend-to-index-plus-one */
__CPROVER_ensures((idx != SIZE_MAX && idx >= OLDN) ==> self->_frames.size == idx + 1)
/*@ C06 C13 : Data_frame.storage-valid */
__CPROVER_ensures(__CPROVER_r_ok(self->_frames.data, self->_frames.size * sizeof(struct Frame)))
/*@ C06 C10 : Data_frame.other-frames-kept */
__CPROVER_ensures((vf_gf < OLDN && vf_gf != TARGET) ==>
                  (__CPROVER_pointer_equals(self->_frames.data[vf_gf]._points, OLD_PTS(vf_gf)) &&
                   __CPROVER_pointer_equals(self->_frames.data[vf_gf]._analogs, OLD_ANA(vf_gf))))
/*@ C06 : Data_frame.frames-in-between-empty */
__CPROVER_ensures((idx != SIZE_MAX && vf_gf >= OLDN && vf_gf < idx) ==>
                  (self->_frames.data[vf_gf]._points->_points.size == 0 && self->_frames.data[vf_gf]._analogs->_subframe.size == 0))
/*@ C06 C08 : Data_frame.frames-in-between-independent */
__CPROVER_ensures((idx != SIZE_MAX && vf_gf >= OLDN && vf_gf < idx && vf_gf2 >= OLDN && vf_gf2 < idx && vf_gf != vf_gf2) ==>
                  (self->_frames.data[vf_gf]._points != self->_frames.data[vf_gf2]._points &&
                   self->_frames.data[vf_gf]._analogs != self->_frames.data[vf_gf2]._analogs))
/*@ C06 : Data_frame.target-point-count */
__CPROVER_ensures(self->_frames.data[TARGET]._points->_points.size == frame->_points->_points.size)
/*@ C06 : Data_frame.target-subframe-count */
__CPROVER_ensures(self->_frames.data[TARGET]._analogs->_subframe.size == frame->_analogs->_subframe.size)
/*@ C08 : Data_frame.replace-payload-not-shared-with-caller */
__CPROVER_ensures(idx != SIZE_MAX ==> (self->_frames.data[TARGET]._points != frame->_points &&
                                       self->_frames.data[TARGET]._analogs != frame->_analogs))
/*@ C08 : Data_frame.append-payload-not-shared-with-caller */
__CPROVER_ensures(idx == SIZE_MAX ==> (self->_frames.data[TARGET]._points != frame->_points &&
                                       self->_frames.data[TARGET]._analogs != frame->_analogs))
/*@ C08 : Data_frame.payload-not-shared-with-other-frames */
__CPROVER_ensures((vf_gf < OLDN && vf_gf != TARGET) ==>
                  (self->_frames.data[TARGET]._points != OLD_PTS(vf_gf) && self->_frames.data[TARGET]._analogs != OLD_ANA(vf_gf)))
/*@ C06 C10 : Data_frame.nothrow */ __CPROVER_ensures(vf_exc == 0);

static struct Data *mk_data(void)
{
  struct Data *d = (struct Data *)vf_alloc(sizeof(*d));
  VF_MK_VEC(d->_frames, struct Frame);
  if (vf_gf < d->_frames.size) {
    /* a stored frame: its own Points / Analogs objects */
    d->_frames.data[vf_gf]._points = (struct Points *)vf_alloc(sizeof(struct Points));
    d->_frames.data[vf_gf]._analogs = (struct Analogs *)vf_alloc(sizeof(struct Analogs));
  }
  return d;
}

/* the three documented cases are proved as three queries (one query for all three exhausts 12 GB) */
static void run_Data_frame(int which)
{
  struct Data *self = mk_data();
  struct Frame *frame = (struct Frame *)vf_alloc(sizeof(*frame));
  vf_mk_frame_in(frame);
  size_t idx;
  if (which == 0)
    __CPROVER_assume(idx == SIZE_MAX);
  else if (which == 1)
    __CPROVER_assume(idx < self->_frames.size);
  else
    __CPROVER_assume(idx != SIZE_MAX && idx >= self->_frames.size);
  Data__frame__Frame_sz(self, frame, idx);
  VF_CANARY();
}
void h_Data_frame_append(void) { run_Data_frame(0); }
void h_Data_frame_replace(void) { run_Data_frame(1); }
void h_Data_frame_extend(void) { run_Data_frame(2); }

/* what the aliasing query needs from Frame::add(Frame): it reads the argument's two parts and gives self fresh ones */
void contract_shallow_Frame__add__Frame(struct Frame *self, const struct Frame *frame)
__CPROVER_requires(vf_exc == 0 && __CPROVER_rw_ok(self, sizeof(*self)) && __CPROVER_r_ok(frame, sizeof(*frame)) &&
                   __CPROVER_r_ok(frame->_points, sizeof(struct Points)) && __CPROVER_r_ok(frame->_analogs, sizeof(struct Analogs)))
__CPROVER_assigns(self->_points, self->_analogs)
__CPROVER_ensures(__CPROVER_is_fresh(self->_points, sizeof(struct Points)) && __CPROVER_is_fresh(self->_analogs, sizeof(struct Analogs)) &&
                  self->_points->_points.size == frame->_points->_points.size && vf_exc == 0);

/* the argument may be one of the stored frames (c.frame(c.data().frame(0))): growth must not invalidate it before it is read */
void contract_alias_Data__frame__Frame_sz(struct Data *self, const struct Frame *frame, size_t idx)
__CPROVER_requires(vf_exc == 0 && __CPROVER_rw_ok(self, sizeof(*self)) && VF_VEC_OK(self->_frames, struct Frame) &&
                   self->_frames.size < VF_MAXN && (idx == SIZE_MAX || idx < VF_MAXN) && vf_gf < self->_frames.size &&
                   frame == &self->_frames.data[vf_gf] && __CPROVER_r_ok(frame->_points, sizeof(struct Points)) &&
                   __CPROVER_r_ok(frame->_analogs, sizeof(struct Analogs)))
__CPROVER_assigns(self->_frames.data, self->_frames.size, __CPROVER_object_whole(self->_frames.data))
__CPROVER_frees(self->_frames.data)
/*@ C13 C06 : Data_frame_alias.count */
__CPROVER_ensures(self->_frames.size == (idx == SIZE_MAX ? OLDN + 1 : (idx >= OLDN ? idx + 1 : OLDN)))
/*@ C13 C06 : Data_frame_alias.target-point-count */
__CPROVER_ensures(self->_frames.data[TARGET]._points->_points.size == __CPROVER_old(frame->_points->_points.size))
/*@ C13 C10 : Data_frame_alias.nothrow */ __CPROVER_ensures(vf_exc == 0);

void h_Data_frame_alias(void)
{
  struct Data *self = mk_data();
  __CPROVER_assume(vf_gf < self->_frames.size); /* mk_data gave this stored frame its own Points / Analogs objects */
  size_t idx;
  __CPROVER_assume(idx == SIZE_MAX || idx >= self->_frames.size); /* the growing cases */
  Data__frame__Frame_sz(self, &self->_frames.data[vf_gf], idx);
  VF_CANARY();
}
