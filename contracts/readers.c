/* Read helpers and record readers over the input-stream model (C02 C12 C13 C16 C04 C17). */
#include "vf_harness.h"
#include "kernel_contracts.h"
VF_GHOSTS

#define ST (&self->vf_base)
#define IMG(o) ((unsigned)ST->buf[(o)])
#define GOOD0 (!__CPROVER_old(ST->eof) && !__CPROVER_old(ST->fail))
#define POS0 __CPROVER_old(ST->pos)
#define AVAIL0 VF_AVAIL_OLD(ST)

/* ---------------------------------------------------------------- readFile: relative read (pos == cur) */
void contract_c3d__readFile(struct c3d *self, unsigned int nByteToRead, char *c, int nByteFromPrevious, const int *pos)
__CPROVER_requires(vf_exc == 0 && __CPROVER_rw_ok(self, sizeof(*self)) && VF_ISTREAM_OK(ST) && __CPROVER_r_ok(pos, sizeof(*pos)) &&
                   nByteToRead <= VF_MAXSTR && __CPROVER_w_ok(c, (size_t)nByteToRead + 1))
__CPROVER_assigns(ST->pos, ST->eof, ST->fail, ST->work, __CPROVER_object_upto(c, (size_t)nByteToRead + 1))
/*@ C13 C16 C02 : readFile.terminated */ __CPROVER_ensures(c[nByteToRead] == 0)
/*@ C02 C12 : readFile.bytes-are-the-file-bytes */
__CPROVER_ensures((*pos == VF_IOS_cur && GOOD0 && vf_gc < nByteToRead && vf_gc < AVAIL0) ==>
                  (unsigned)(unsigned char)c[vf_gc] == IMG((size_t)POS0 + vf_gc))
/*@ C02 C12 : readFile.first-four-bytes */
__CPROVER_ensures((*pos == VF_IOS_cur && GOOD0) ==>
                  ((nByteToRead > 0 && AVAIL0 > 0 ==> (unsigned)(unsigned char)c[0] == IMG((size_t)POS0)) &&
                   (nByteToRead > 1 && AVAIL0 > 1 ==> (unsigned)(unsigned char)c[1] == IMG((size_t)POS0 + 1)) &&
                   (nByteToRead > 2 && AVAIL0 > 2 ==> (unsigned)(unsigned char)c[2] == IMG((size_t)POS0 + 2)) &&
                   (nByteToRead > 3 && AVAIL0 > 3 ==> (unsigned)(unsigned char)c[3] == IMG((size_t)POS0 + 3))))
/*@ C02 : readFile.position-advances */
__CPROVER_ensures((*pos == VF_IOS_cur && GOOD0) ==> ST->pos == POS0 + (long)(nByteToRead < AVAIL0 ? nByteToRead : AVAIL0))
/*@ C16 C02 : readFile.short-read-sets-eof-and-fail */
__CPROVER_ensures((*pos == VF_IOS_cur && GOOD0 && AVAIL0 < nByteToRead) ==> (ST->eof && ST->fail))
/*@ C16 : readFile.failed-stream-reads-nothing */
__CPROVER_ensures((*pos == VF_IOS_cur && !GOOD0) ==> (ST->fail && ST->pos == POS0))
/*@ C16 : readFile.position-stays-bounded */
__CPROVER_ensures(ST->pos <= (POS0 > 0 ? POS0 : 0) + 0x80000000L + (long)VF_MAXFILE + 0x100)
/*@ C02 C16 : readFile.complete-read-keeps-stream-good */
__CPROVER_ensures((*pos == VF_IOS_cur && GOOD0 && AVAIL0 >= nByteToRead) ==> (!ST->eof && !ST->fail))
/*@ C16 : readFile.work-bounded */ __CPROVER_ensures(ST->work <= __CPROVER_old(ST->work) + nByteToRead)
/*@ C16 C10 : readFile.nothrow */ __CPROVER_ensures(vf_exc == 0);

void h_readFile(void)
{
  struct c3d *self = vf_mk_c3d_reader();
  unsigned int n;
  __CPROVER_assume(n <= VF_MAXSTR);
  char *c = (char *)vf_alloc((size_t)n + 1);
  int *pos = (int *)vf_alloc(sizeof(int));
  int off;
  c3d__readFile(self, n, c, off, pos);
  VF_CANARY();
}

/* ---------------------------------------------------------------- readUint / readInt (1, 2 or 4 bytes) */
size_t contract_c3d__readUint(struct c3d *self, unsigned int nByteToRead, int nByteFromPrevious, const int *pos)
__CPROVER_requires(vf_exc == 0 && __CPROVER_rw_ok(self, sizeof(*self)) && VF_ISTREAM_OK(ST) && __CPROVER_r_ok(pos, sizeof(*pos)) &&
                   nByteToRead <= 512)
__CPROVER_assigns(ST->pos, ST->eof, ST->fail, ST->work VF_GHOST_ALLOC)
/*@ C02 C12 : readUint.byte */
__CPROVER_ensures((*pos == VF_IOS_cur && GOOD0 && nByteToRead == 1 && AVAIL0 >= 1) ==> __CPROVER_return_value == IMG((size_t)POS0))
/*@ C02 C12 C17 : readUint.word-little-endian */
__CPROVER_ensures((*pos == VF_IOS_cur && GOOD0 && nByteToRead == 2 && AVAIL0 >= 2) ==>
                  __CPROVER_return_value == (IMG((size_t)POS0) | (IMG((size_t)POS0 + 1) << 8)))
/*@ C02 : readUint.position-advances */
__CPROVER_ensures((*pos == VF_IOS_cur && GOOD0) ==> ST->pos == POS0 + (long)(nByteToRead < AVAIL0 ? nByteToRead : AVAIL0))
/*@ C16 : readUint.result-fits-width */
__CPROVER_ensures(nByteToRead == 1 ==> __CPROVER_return_value <= 255)
/*@ C16 : readUint.word-fits-width */
__CPROVER_ensures(nByteToRead == 2 ==> __CPROVER_return_value <= 65535)
/*@ C16 : readUint.failed-stream-reads-nothing */
__CPROVER_ensures((*pos == VF_IOS_cur && !GOOD0) ==> (ST->fail && ST->pos == POS0))
/*@ C16 : readUint.position-stays-bounded */
__CPROVER_ensures(ST->pos <= (POS0 > 0 ? POS0 : 0) + 0x80000000L + (long)VF_MAXFILE + 0x100)
/*@ C02 C16 : readUint.complete-read-keeps-stream-good */
__CPROVER_ensures((*pos == VF_IOS_cur && GOOD0 && AVAIL0 >= nByteToRead) ==> (!ST->eof && !ST->fail))
/*@ C16 : readUint.work-bounded */ __CPROVER_ensures(ST->work <= __CPROVER_old(ST->work) + nByteToRead)
#ifdef VF_TRACK_ALLOC
/*@ C16 : readUint.allocation-bounded */
__CPROVER_ensures(vf_max_alloc <= (__CPROVER_old(vf_max_alloc) > (size_t)nByteToRead + 1 ? __CPROVER_old(vf_max_alloc) : (size_t)nByteToRead + 1))
#endif
/*@ C16 C10 : readUint.nothrow */ __CPROVER_ensures(vf_exc == 0);

void h_readUint(void)
{
  struct c3d *self = vf_mk_c3d_reader();
  unsigned int n;
  int *pos = (int *)vf_alloc(sizeof(int));
  int off;
  c3d__readUint(self, n, off, pos);
  VF_CANARY();
}

int contract_c3d__readInt(struct c3d *self, unsigned int nByteToRead, int nByteFromPrevious, const int *pos)
__CPROVER_requires(vf_exc == 0 && __CPROVER_rw_ok(self, sizeof(*self)) && VF_ISTREAM_OK(ST) && __CPROVER_r_ok(pos, sizeof(*pos)) &&
                   (nByteToRead == 1 || nByteToRead == 2 || (nByteToRead >= 4 && nByteToRead <= 512)))
__CPROVER_assigns(ST->pos, ST->eof, ST->fail, ST->work VF_GHOST_ALLOC)
/*@ C02 C12 : readInt.signed-byte */
__CPROVER_ensures((*pos == VF_IOS_cur && GOOD0 && nByteToRead == 1 && AVAIL0 >= 1) ==>
                  __CPROVER_return_value == (int)(signed char)(unsigned char)IMG((size_t)POS0))
/*@ C02 C12 C17 : readInt.signed-word */
__CPROVER_ensures((*pos == VF_IOS_cur && GOOD0 && nByteToRead == 2 && AVAIL0 >= 2) ==>
                  __CPROVER_return_value == (int)(short)(unsigned short)(IMG((size_t)POS0) | (IMG((size_t)POS0 + 1) << 8)))
/*@ C02 : readInt.position-advances */
__CPROVER_ensures((*pos == VF_IOS_cur && GOOD0) ==> ST->pos == POS0 + (long)(nByteToRead < AVAIL0 ? nByteToRead : AVAIL0))
/*@ C16 : readInt.byte-range */
__CPROVER_ensures(nByteToRead == 1 ==> (__CPROVER_return_value >= -128 && __CPROVER_return_value <= 127))
/*@ C16 : readInt.failed-stream-reads-nothing */
__CPROVER_ensures((*pos == VF_IOS_cur && !GOOD0) ==> (ST->fail && ST->pos == POS0))
/*@ C16 : readInt.position-stays-bounded */
__CPROVER_ensures(ST->pos <= (POS0 > 0 ? POS0 : 0) + 0x80000000L + (long)VF_MAXFILE + 0x100)
/*@ C02 C16 : readInt.complete-read-keeps-stream-good */
__CPROVER_ensures((*pos == VF_IOS_cur && GOOD0 && AVAIL0 >= nByteToRead) ==> (!ST->eof && !ST->fail))
/*@ C16 : readInt.work-bounded */ __CPROVER_ensures(ST->work <= __CPROVER_old(ST->work) + nByteToRead)
#ifdef VF_TRACK_ALLOC
/*@ C16 : readInt.allocation-bounded */
__CPROVER_ensures(vf_max_alloc <= (__CPROVER_old(vf_max_alloc) > (size_t)nByteToRead + 1 ? __CPROVER_old(vf_max_alloc) : (size_t)nByteToRead + 1))
#endif
/*@ C16 C10 : readInt.nothrow */ __CPROVER_ensures(vf_exc == 0);

void h_readInt(void)
{
  struct c3d *self = vf_mk_c3d_reader();
  unsigned int n;
  int *pos = (int *)vf_alloc(sizeof(int));
  int off;
  c3d__readInt(self, n, off, pos);
  VF_CANARY();
}

/* ---------------------------------------------------------------- readFloat: the 4 file bytes are the float's bits */
float contract_c3d__readFloat(struct c3d *self, int nByteFromPrevious, const int *pos)
__CPROVER_requires(vf_exc == 0 && __CPROVER_rw_ok(self, sizeof(*self)) && VF_ISTREAM_OK(ST) && __CPROVER_r_ok(pos, sizeof(*pos)) &&
                   self->m_nByteToRead_float == 4 && __CPROVER_rw_ok(self->c_float, 5))
__CPROVER_assigns(ST->pos, ST->eof, ST->fail, ST->work, __CPROVER_object_whole(self->c_float))
/*@ C02 C12 C01 : readFloat.bit-pattern */
__CPROVER_ensures((*pos == VF_IOS_cur && GOOD0 && AVAIL0 >= 4) ==>
                  vf_bits_of(__CPROVER_return_value) == (IMG((size_t)POS0) | (IMG((size_t)POS0 + 1) << 8) | (IMG((size_t)POS0 + 2) << 16) | (IMG((size_t)POS0 + 3) << 24)))
/*@ C02 : readFloat.position-advances */
__CPROVER_ensures((*pos == VF_IOS_cur && GOOD0) ==> ST->pos == POS0 + (long)(4 < AVAIL0 ? 4 : AVAIL0))
/*@ C16 : readFloat.failed-stream-reads-nothing */
__CPROVER_ensures((*pos == VF_IOS_cur && !GOOD0) ==> (ST->fail && ST->pos == POS0))
/*@ C16 : readFloat.position-stays-bounded */
__CPROVER_ensures(ST->pos <= (POS0 > 0 ? POS0 : 0) + 0x80000000L + (long)VF_MAXFILE + 0x100)
/*@ C02 C16 : readFloat.complete-read-keeps-stream-good */
__CPROVER_ensures((*pos == VF_IOS_cur && GOOD0 && AVAIL0 >= 4) ==> (!ST->eof && !ST->fail))
/*@ C16 : readFloat.work-bounded */ __CPROVER_ensures(ST->work <= __CPROVER_old(ST->work) + 4)
/*@ C16 C10 : readFloat.nothrow */ __CPROVER_ensures(vf_exc == 0);

void h_readFloat(void)
{
  struct c3d *self = vf_mk_c3d_reader();
  int *pos = (int *)vf_alloc(sizeof(int));
  int off;
  c3d__readFloat(self, off, pos);
  VF_CANARY();
}

/* ---------------------------------------------------------------- readString(n): at most n characters, up to the first NUL */
void contract_c3d__readString(vf_string *vf_ret, struct c3d *self, unsigned int nByteToRead, int nByteFromPrevious, const int *pos)
__CPROVER_requires(vf_exc == 0 && __CPROVER_rw_ok(self, sizeof(*self)) && VF_ISTREAM_OK(ST) && __CPROVER_r_ok(pos, sizeof(*pos)) &&
                   __CPROVER_rw_ok(vf_ret, sizeof(*vf_ret)) && nByteToRead <= 255)
__CPROVER_assigns(ST->pos, ST->eof, ST->fail, ST->work, vf_ret->data, vf_ret->size VF_GHOST_ALLOC)
/*@ C02 C13 C16 : readString.valid-string */
__CPROVER_ensures(vf_ret->size <= nByteToRead && __CPROVER_is_fresh(vf_ret->data, vf_ret->size + 1) && vf_ret->data[vf_ret->size] == 0)
/*@ C02 C04 C17 : readString.characters-are-the-file-bytes */
__CPROVER_ensures((*pos == VF_IOS_cur && GOOD0 && AVAIL0 >= nByteToRead && vf_gc < vf_ret->size) ==>
                  ((unsigned)(unsigned char)vf_ret->data[vf_gc] == IMG((size_t)POS0 + vf_gc) && IMG((size_t)POS0 + vf_gc) != 0))
/*@ C02 C04 C17 : readString.stops-only-at-nul-or-length */
__CPROVER_ensures((*pos == VF_IOS_cur && GOOD0 && AVAIL0 >= nByteToRead && vf_gc == vf_ret->size && vf_gc < nByteToRead) ==>
                  IMG((size_t)POS0 + vf_gc) == 0)
/*@ C02 : readString.position-advances */
__CPROVER_ensures((*pos == VF_IOS_cur && GOOD0) ==> ST->pos == POS0 + (long)(nByteToRead < AVAIL0 ? nByteToRead : AVAIL0))
/*@ C16 : readString.failed-stream-reads-nothing */
__CPROVER_ensures((*pos == VF_IOS_cur && !GOOD0) ==> (ST->fail && ST->pos == POS0))
/*@ C16 : readString.position-stays-bounded */
__CPROVER_ensures(ST->pos <= (POS0 > 0 ? POS0 : 0) + 0x80000000L + (long)VF_MAXFILE + 0x100)
/*@ C02 C16 : readString.complete-read-keeps-stream-good */
__CPROVER_ensures((*pos == VF_IOS_cur && GOOD0 && AVAIL0 >= nByteToRead) ==> (!ST->eof && !ST->fail))
/*@ C16 : readString.work-bounded */ __CPROVER_ensures(ST->work <= __CPROVER_old(ST->work) + nByteToRead)
#ifdef VF_TRACK_ALLOC
/*@ C16 : readString.allocation-bounded-by-length */
__CPROVER_ensures(vf_max_alloc <= (__CPROVER_old(vf_max_alloc) > (size_t)nByteToRead + 1 ? __CPROVER_old(vf_max_alloc) : (size_t)nByteToRead + 1))
#endif
/*@ C16 C10 : readString.nothrow */ __CPROVER_ensures(vf_exc == 0);

void h_readString(void)
{
  struct c3d *self = vf_mk_c3d_reader();
  vf_string *out = (vf_string *)vf_alloc(sizeof(*out));
  unsigned int n;
  vf_gn = n;
  int *pos = (int *)vf_alloc(sizeof(int));
  int off;
  c3d__readString(out, self, n, off, pos);
  VF_CANARY();
}

/* ---------------------------------------------------------------- Group::read : name, next-record offset, description.
 * Weak precondition (C16): any file image, any stream state; nbCharInName is what readInt(1) can return. */
#undef ST
#define ST (&file->vf_base)
int contract_Group__read(struct Group *self, struct c3d *file, int nbCharInName)
__CPROVER_requires(vf_exc == 0 && __CPROVER_rw_ok(self, sizeof(*self)) && VF_STR_OK(self->_name) && VF_STR_OK(self->_description) &&
                   __CPROVER_rw_ok(file, sizeof(*file)) && VF_ISTREAM_OK(ST) && nbCharInName >= -128 && nbCharInName <= 127 &&
                   (void *)self != (void *)file)
__CPROVER_assigns(self->_isLocked, self->_name.data, self->_name.size, self->_description.data, self->_description.size,
                  ST->pos, ST->eof, ST->fail, ST->work VF_GHOST_ALLOC)
__CPROVER_frees(self->_name.data, self->_description.data)
/*@ C02 C04 : Group_read.lock-flag-is-sign-of-name-length */ __CPROVER_ensures(self->_isLocked == (nbCharInName < 0))
/*@ C16 C13 : Group_read.name-valid */
__CPROVER_ensures(self->_name.size <= 128 && __CPROVER_r_ok(self->_name.data, self->_name.size + 1) && self->_name.data[self->_name.size] == 0)
/*@ C16 C13 C17 : Group_read.description-valid */
__CPROVER_ensures(self->_description.size <= (__CPROVER_old(self->_description.size) > 255 ? __CPROVER_old(self->_description.size) : 255) &&
                  __CPROVER_r_ok(self->_description.data, self->_description.size + 1))
/*@ C02 C04 : Group_read.name-is-the-file-text */
__CPROVER_ensures((GOOD0 && AVAIL0 >= 128 + 3 + 255 && vf_gc < self->_name.size) ==>
                  (unsigned)(unsigned char)self->_name.data[vf_gc] == IMG((size_t)POS0 + vf_gc))
/*@ C02 C04 C17 C01 : Group_read.description-length-is-unsigned-byte */
__CPROVER_ensures((GOOD0 && AVAIL0 >= 128 + 3 + 255 && vf_gc < IMG((size_t)POS0 + (size_t)(nbCharInName < 0 ? -nbCharInName : nbCharInName) + 2) &&
                   vf_gc < self->_description.size) ==>
                  (unsigned)(unsigned char)self->_description.data[vf_gc] ==
                      IMG((size_t)POS0 + (size_t)(nbCharInName < 0 ? -nbCharInName : nbCharInName) + 3 + vf_gc))
/*@ C16 : Group_read.work-proportional */ __CPROVER_ensures(ST->work <= __CPROVER_old(ST->work) + 128 + 2 + 1 + 255)
#ifdef VF_TRACK_ALLOC
/*@ C16 : Group_read.allocation-bounded */
__CPROVER_ensures(vf_max_alloc <= (__CPROVER_old(vf_max_alloc) > 256 ? __CPROVER_old(vf_max_alloc) : 256))
#endif
/*@ C16 C10 : Group_read.standard-outcome */ __CPROVER_ensures(vf_exc == 0 || vf_exc == VF_EXC_ios_failure);

void h_Group_read(void)
{
  struct Group *self = (struct Group *)vf_alloc(sizeof(*self));
  vf_mk_string(&self->_name);
  vf_mk_string(&self->_description);
  struct c3d *file = vf_mk_c3d_reader();
  int n;
  Group__read(self, file, n);
  VF_CANARY();
}

/* ---------------------------------------------------------------- Parameters::Parameters(c3d&): the record walker, weak
 * precondition (C16 C13).  The two record readers are abstracted (any outcome a reader can have); what is proved
 * here is the walker itself: group-table growth and indexing for every id byte, no out-of-range access, standard
 * exceptions only.  Termination of the outer loop is NOT proved (see DESIGN.md, C16). */
#undef ST
#define ST (&file->vf_base)
int contract_any_Group__read(struct Group *self, struct c3d *file, int nbCharInName)
__CPROVER_requires(vf_exc == 0 && __CPROVER_rw_ok(self, sizeof(*self)) && __CPROVER_rw_ok(file, sizeof(*file)) && VF_ISTREAM_OK(ST) &&
                   nbCharInName >= -128 && nbCharInName <= 127)
__CPROVER_assigns(vf_exc, ST->pos, ST->eof, ST->fail, ST->work)
__CPROVER_ensures((vf_exc == 0 || vf_exc == VF_EXC_ios_failure) && ST->pos <= 0x10000000000L);

int contract_any_Group__parameter__c3d_int(struct Group *self, struct c3d *file, int nbCharInName)
__CPROVER_requires(vf_exc == 0 && __CPROVER_rw_ok(self, sizeof(*self)) && __CPROVER_rw_ok(file, sizeof(*file)) && VF_ISTREAM_OK(ST) &&
                   nbCharInName >= -128 && nbCharInName <= 127)
__CPROVER_assigns(vf_exc, ST->pos, ST->eof, ST->fail, ST->work)
__CPROVER_ensures((vf_exc == 0 || vf_exc == VF_EXC_ios_failure || vf_exc == VF_EXC_runtime_error || vf_exc == VF_EXC_out_of_range) &&
                  ST->pos <= 0x10000000000L);

void contract_any_Group__ctor(struct Group *self, const vf_string *name, const vf_string *description)
__CPROVER_requires(vf_exc == 0 && __CPROVER_rw_ok(self, sizeof(*self)))
__CPROVER_assigns(*self)
__CPROVER_ensures(vf_exc == 0);

void contract_grow_vf_vec_Group_push_back(vf_vec_Group *v, const struct Group *x)
__CPROVER_requires(v->size < 128 && __CPROVER_rw_ok(v, sizeof(*v)) && __CPROVER_r_ok(x, sizeof(*x)))
__CPROVER_assigns(v->data, v->size)
__CPROVER_frees(v->data)
__CPROVER_ensures(v->size == __CPROVER_old(v->size) + 1 && __CPROVER_is_fresh(v->data, v->size * sizeof(struct Group)));

struct Group *contract_acc_Parameters__group_nonConst__sz(struct Parameters *self, size_t idx)
__CPROVER_requires(vf_exc == 0 && __CPROVER_r_ok(self, sizeof(*self)) && self->_groups.size <= 128 &&
                   __CPROVER_r_ok(self->_groups.data, (self->_groups.size ? self->_groups.size : 1) * sizeof(struct Group)))
__CPROVER_assigns(vf_exc)
__CPROVER_ensures(idx < self->_groups.size ==> (vf_exc == 0 && __CPROVER_pointer_equals(__CPROVER_return_value, &self->_groups.data[idx])))
__CPROVER_ensures(idx >= self->_groups.size ==> vf_exc == VF_EXC_out_of_range);

void contract_Parameters__ctor__c3d(struct Parameters *self, struct c3d *file)
__CPROVER_requires(vf_exc == 0 && __CPROVER_rw_ok(self, sizeof(*self)) && __CPROVER_rw_ok(file, sizeof(*file)) && VF_ISTREAM_OK(ST) &&
                   __CPROVER_r_ok(file->_header, sizeof(struct Header)) && (void *)self != (void *)file)
__CPROVER_assigns(*self, vf_exc, ST->pos, ST->eof, ST->fail, ST->work VF_GHOST_ALLOC)
/*@ C16 C13 : Parameters_read.standard-outcome */
__CPROVER_ensures(vf_exc == 0 || vf_exc == VF_EXC_ios_failure || vf_exc == VF_EXC_runtime_error || vf_exc == VF_EXC_out_of_range)
/*@ C16 C13 : Parameters_read.group-table-bounded */
__CPROVER_ensures(vf_exc == 0 ==> self->_groups.size <= 128)
/*@ C02 C16 : Parameters_read.magic-byte-enforced */
__CPROVER_ensures(vf_exc == 0 ==> self->_checksum == 0x50);

void h_Parameters_read(void)
{
  struct Parameters *self = (struct Parameters *)vf_alloc(sizeof(*self));
  struct c3d *file = vf_mk_c3d_reader();
  file->_header = (struct Header *)vf_alloc(sizeof(struct Header));
  Parameters__ctor__c3d(self, file);
  VF_CANARY();
}
