/* Value stubs of the read helpers: executable forms of the contracts proved for readUint / readInt / readFloat /
 * readString in contracts/readers.c (good stream and enough bytes => the little-endian value of the file bytes and the
 * position advanced; otherwise eof|fail and an arbitrary value).  Used by the `bmc`-mode reader units. */
#ifndef VF_VALUE_STUBS_H
#define VF_VALUE_STUBS_H
#ifndef VF_STUB_STRMAX
#define VF_STUB_STRMAX 4 /* longest string a unit asks readString for */
#endif
static size_t stubv_take(struct c3d *self, unsigned n, const int *pos, unsigned char *out4, _Bool *ok)
{
  vf_stream *f = &self->vf_base;
  if (*pos == VF_IOS_beg) { f->eof = 0; if (!f->fail) f->pos = 0; }
  else __CPROVER_assert(*pos == VF_IOS_cur, "Header::read reads relative to the current position");
  *ok = 0;
  f->work += n;
  if (f->eof || f->fail) { f->fail = 1; return 0; }
  size_t avail = (f->is_open && f->pos >= 0 && (size_t)f->pos < f->len) ? f->len - (size_t)f->pos : 0;
  size_t k = n < avail ? n : avail;
  for (unsigned i = 0; i < 4; ++i)
    if (i < k) out4[i] = f->buf[(size_t)f->pos + i];
  f->pos += (long)k;
  if (k != n) { f->eof = 1; f->fail = 1; } else *ok = 1;
  return k;
}
size_t stubv_readUint(struct c3d *self, unsigned int n, int off, const int *pos)
{
  __CPROVER_assert(n <= 512, "readUint is asked for at most 512 bytes (contract of readUint)");
  unsigned char b[4]; _Bool ok;
  stubv_take(self, n, pos, b, &ok);
  if (!ok) return nondet_size_t();
  size_t v = 0;
  for (unsigned i = 0; i < 4; ++i) if (i < n) v |= (size_t)b[i] << (8 * i);
  return v;
}
int stubv_readInt(struct c3d *self, unsigned int n, int off, const int *pos)
{
  /*@ C19 C02 : Header_read.integer-fields-within-the-kernels-domain */
  __CPROVER_assert(n == 1 || n == 2 || (n >= 4 && n <= 512), "readInt is asked for 1, 2 or 4..512 bytes (contract of readInt / hex2int)");
  unsigned char b[4]; _Bool ok;
  stubv_take(self, n, pos, b, &ok);
  if (!ok || n == 3 || n == 0) return nondet_int();
  if (n == 1) return (int)(signed char)b[0];
  if (n == 2) return (int)(short)(unsigned short)(b[0] | (b[1] << 8));
  return (int)((unsigned)b[0] | ((unsigned)b[1] << 8) | ((unsigned)b[2] << 16) | ((unsigned)b[3] << 24));
}
float stubv_readFloat(struct c3d *self, int off, const int *pos)
{
  unsigned char b[4]; _Bool ok;
  stubv_take(self, 4, pos, b, &ok);
  union { float f; unsigned u; } c;
  c.u = ok ? ((unsigned)b[0] | ((unsigned)b[1] << 8) | ((unsigned)b[2] << 16) | ((unsigned)b[3] << 24)) : nondet_unsigned();
  return c.f;
}
void stubv_readString(vf_string *ret, struct c3d *self, unsigned int n, int off, const int *pos)
{
#ifdef VF_STUB_STR_CUT
  __CPROVER_assume(n <= 4); /* bounded unit: requests for longer strings are cut (stated in the unit's bound) */
#else
  __CPROVER_assert(n <= 4, "Header::read asks readString for 4-character labels");
#endif
  unsigned char b[4]; _Bool ok;
  stubv_take(self, n, pos, b, &ok);
  size_t m = 0;
  if (ok) { while (m < n && m < 4 && b[m] != 0) ++m; } else { m = nondet_size_t(); __CPROVER_assume(m <= n && m <= 4); }
  ret->size = m;
  ret->data = (char *)vf_alloc(m + 1);
  for (size_t i = 0; i < 4; ++i) if (i < m && ok) ret->data[i] = (char)b[i];
  ret->data[m] = 0;
}
void stubv_string_assign(vf_string *s, const vf_string *o)
{
  /* operator= on the 4-character labels */
  s->size = o->size;
  s->data = (char *)vf_alloc(o->size + 1);
  for (size_t i = 0; i < 5; ++i) if (i <= o->size) s->data[i] = o->data[i];
}

#endif
