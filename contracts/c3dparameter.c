/* c3d::parameter(groupName, p): find-or-create the group, replace-or-append the parameter, then update the header
 * (C09), and a refused call changes nothing (C10).
 * The callees are replaced by contracts that abstract what their own units prove:
 *   Parameters::groupIdx(name)      -> first match or invalid_argument      (unit Parameters_groupIdx, lookups.c)
 *   Group::parameter(p)             -> untyped refused before any change, else replace-in-place / append (unit Group_parameter)
 *   Parameters::group(Group)        -> appends a group that is not there yet (assumed here: no unit of its own)
 * "is the group there" is a ghost fact (vf_cp_present / vf_cp_idx) that groupIdx reports and group(Group) establishes. */
#include "vf_harness.h"
VF_GHOSTS

#define VF_CP_MAXG 4096 /* capacity of the group list in this unit (the format itself allows 127 groups) */
#define VF_NONE 10000 /* ezc3d::DATA_TYPE::NONE */
_Bool vf_cp_present;          /* a group of that name exists */
size_t vf_cp_idx;             /* ... at this position (first match) */
size_t vf_cp_created;         /* groups appended by this call */
int vf_cp_step;               /* 0 nothing yet, 1 parameter stored, 2 header updated */
const struct Group *vf_cp_target, *vf_cp_ctor_obj;
const struct Parameter *vf_cp_arg;
const vf_string *vf_cp_ctor_name;

size_t contract_cp_Parameters__groupIdx(const struct Parameters *self, const vf_string *groupName)
__CPROVER_requires(vf_exc == 0 && __CPROVER_r_ok(self, sizeof(*self)))
__CPROVER_assigns(vf_exc)
__CPROVER_ensures(vf_cp_present ? (vf_exc == 0 && __CPROVER_return_value == vf_cp_idx) : vf_exc == VF_EXC_invalid_argument);

void contract_cp_Group__ctor(struct Group *self, const vf_string *name, const vf_string *description)
__CPROVER_requires(vf_exc == 0 && __CPROVER_rw_ok(self, sizeof(*self)))
__CPROVER_assigns(__CPROVER_object_whole(self), vf_cp_ctor_obj, vf_cp_ctor_name)
__CPROVER_ensures(vf_exc == 0 && vf_cp_ctor_obj == self && vf_cp_ctor_name == name);

void contract_cp_Parameters__group__Group(struct Parameters *self, const struct Group *g)
__CPROVER_requires(vf_exc == 0 && vf_cp_step == 0 && !vf_cp_present && g == vf_cp_ctor_obj && __CPROVER_rw_ok(self, sizeof(*self)) &&
                   self->_groups.size < VF_CP_MAXG)
__CPROVER_assigns(vf_cp_present, vf_cp_idx, vf_cp_created, self->_groups.size, self->_groups.data)
__CPROVER_ensures(vf_exc == 0 && vf_cp_present && vf_cp_idx == __CPROVER_old(self->_groups.size) &&
                  self->_groups.size == __CPROVER_old(self->_groups.size) + 1 && vf_cp_created == __CPROVER_old(vf_cp_created) + 1 &&
                  __CPROVER_is_fresh(self->_groups.data, (VF_CP_MAXG + 1) * sizeof(struct Group)));

void contract_cp_Group__parameter__Parameter(struct Group *self, const struct Parameter *p)
__CPROVER_requires(vf_exc == 0 && vf_cp_step == 0 && __CPROVER_r_ok(p, sizeof(*p)))
__CPROVER_assigns(vf_exc, vf_cp_step, vf_cp_target, vf_cp_arg)
__CPROVER_ensures(p->_data_type == VF_NONE ? (vf_exc == VF_EXC_runtime_error && vf_cp_step == 0)
                                           : (vf_exc == 0 && vf_cp_step == 1 && vf_cp_target == self && vf_cp_arg == p));

void contract_cp_c3d__updateHeader(struct c3d *self)
__CPROVER_requires(vf_exc == 0 && vf_cp_step == 1)
__CPROVER_assigns(vf_cp_step)
__CPROVER_ensures(vf_exc == 0 && vf_cp_step == 2);

#define GROUPS (self->_parameters->_groups)
void contract_c3d__parameter(struct c3d *self, const vf_string *groupName, const struct Parameter *p)
__CPROVER_requires(vf_exc == 0 && vf_cp_step == 0 && vf_cp_created == 0 && __CPROVER_rw_ok(self, sizeof(*self)) &&
                   __CPROVER_rw_ok(self->_parameters, sizeof(struct Parameters)) && __CPROVER_r_ok(p, sizeof(*p)) &&
                   __CPROVER_r_ok(p->_name.data, p->_name.size + 1) && GROUPS.size < VF_CP_MAXG && (!vf_cp_present || vf_cp_idx < GROUPS.size))
__CPROVER_assigns(vf_exc, vf_cp_present, vf_cp_idx, vf_cp_created, vf_cp_step, vf_cp_target, vf_cp_arg, vf_cp_ctor_obj, vf_cp_ctor_name,
                  GROUPS.size, GROUPS.data)
/*@ C09 C10 : c3d_parameter.unnamed-refused */
__CPROVER_ensures(p->_name.size == 0 ==> vf_exc == VF_EXC_invalid_argument)
/*@ C09 C10 : c3d_parameter.untyped-refused */
__CPROVER_ensures((p->_name.size != 0 && p->_data_type == VF_NONE) ==> vf_exc == VF_EXC_runtime_error)
/*@ C09 : c3d_parameter.named-typed-accepted */
__CPROVER_ensures((p->_name.size != 0 && p->_data_type != VF_NONE) ==> vf_exc == 0)
/*@ C10 : c3d_parameter.refused-leaves-the-group-list */
__CPROVER_ensures(vf_exc != 0 ==> (vf_cp_created == 0 && GROUPS.size == __CPROVER_old(GROUPS.size) &&
                                   GROUPS.data == __CPROVER_old(GROUPS.data) && vf_cp_step == 0))
/*@ C09 : c3d_parameter.group-created-iff-absent */
__CPROVER_ensures(vf_exc == 0 ==> ((__CPROVER_old(vf_cp_present) ==> (vf_cp_created == 0 && GROUPS.size == __CPROVER_old(GROUPS.size) &&
                                                                       GROUPS.data == __CPROVER_old(GROUPS.data))) &&
                                   (!__CPROVER_old(vf_cp_present) ==> (vf_cp_created == 1 && GROUPS.size == __CPROVER_old(GROUPS.size) + 1 &&
                                                                        vf_cp_ctor_name == groupName))))
/*@ C09 : c3d_parameter.stored-in-the-named-group */
__CPROVER_ensures(vf_exc == 0 ==> (vf_cp_arg == p && vf_cp_target == &GROUPS.data[__CPROVER_old(vf_cp_present) ? __CPROVER_old(vf_cp_idx)
                                                                                                                 : __CPROVER_old(GROUPS.size)]))
/*@ C09 C05 : c3d_parameter.header-updated-after-the-edit */
__CPROVER_ensures(vf_exc == 0 ==> vf_cp_step == 2);

void h_c3d_parameter(void)
{
  struct c3d *self = (struct c3d *)vf_alloc(sizeof(*self));
  self->_parameters = (struct Parameters *)vf_alloc(sizeof(struct Parameters));
  self->_parameters->_groups.size = nondet_size_t();
  __CPROVER_assume(self->_parameters->_groups.size < VF_CP_MAXG);
  self->_parameters->_groups.data = (struct Group *)vf_alloc(VF_CP_MAXG * sizeof(struct Group));
  vf_string *groupName = (vf_string *)vf_alloc(sizeof(*groupName));
  vf_mk_string(groupName);
  struct Parameter *p = (struct Parameter *)vf_alloc(sizeof(*p));
  vf_mk_string(&p->_name);
  vf_cp_step = 0;
  vf_cp_created = 0;
  c3d__parameter(self, groupName, p);
  VF_CANARY();
}
