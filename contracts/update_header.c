/* c3d::updateHeader: "parameters win over the header" (C05), the conversions it performs (C19), nothing thrown (C10).
 *
 * Mode: plain CBMC on the real (lowered) updater, callees replaced by abstract stubs = their contracts in executable form;
 * the harness asserts the postconditions and the frame.  updateHeader has no loop of its own (the only loops are the
 * constant-bound copies of its string literals, unwound completely with unwinding assertions on), so this is a complete
 * symbolic execution over every pre-state admitted below - not a depth-bounded one.
 * (The same contract enforced through the DFCC instrumentation was tried first: 38 by-name chains x replaced contracts
 * gave 77k SSA steps / 56M clauses per postcondition and did not finish.)
 *
 * By-name chains are resolved through the ghost directory (dir_contracts.h, VALID_C3D); the header's derived
 * getters/setters that multiply or divide are the stubs below, which state exactly the contracts proved for them in units
 * Header_nbAnalogs / Header_setNbAnalogs / Header_nbFrames / Header_setNbAnalogByFrame (kernel_contracts.h). */
#include "vf_harness.h"
VF_GHOSTS
#include "dir_contracts.h"

#define HDR16(h) ((h)->_nbAnalogByFrame <= 65535 && (h)->_nbAnalogsMeasurement <= 65535 && (h)->_nb3dPoints <= 65535)

const struct Group *stubu_group(const struct Parameters *self, const vf_string *name)
{
  __CPROVER_assert(IS_POINT(name) || IS_ANALOG(name), "updateHeader asks for the groups POINT and ANALOG only");
  return IS_POINT(name) ? vf_dir_point : vf_dir_analog;
}
const struct Parameter *stubu_parameter(const struct Group *self, vf_string *name)
{
  __CPROVER_assert((self == vf_dir_point && (IS_USED(name) || IS_RATE(name) || IS_FRAMES(name))) ||
                   (self == vf_dir_analog && (IS_USED(name) || IS_RATE(name))), "updateHeader asks for USED / RATE / FRAMES only");
  if (self == vf_dir_point)
    return IS_USED(name) ? vf_dir_p_used : IS_RATE(name) ? vf_dir_p_rate : vf_dir_p_frames;
  return IS_USED(name) ? vf_dir_a_used : vf_dir_a_rate;
}
/* ---- the header's analog view, abstractly: (sub-frames k, channels ch, samples = ch * k exactly?).
 * ghost vf_h_ch  = the value Header::nbAnalogs() returns while k != 0   (= samples / k, contract Header_nbAnalogs.channels-times-subframes)
 * ghost vf_h_exact = "samples per frame == ch * k"                     (contract Header_setNbAnalogs.samples-per-frame establishes it)
 * The stubs below are the contracts of the four getters/setters restated over this view, so that the updater's logic is
 * decided without a multiplier or divider in the formula; the concrete samples word is left arbitrary. */
size_t vf_h_ch;
_Bool vf_h_exact;
/* the samples word after a setter: some value that fits its 16-bit header word (assumption SAMPLES_FIT: channels x
 * sub-frames <= 65535 in every intermediate state; beyond it the header word cannot hold the product - finding C17) */
static size_t stubu_samples(void)
{
  size_t m = nondet_size_t();
  __CPROVER_assume(m <= 65535);
  return m;
}
/* contract_Header__nbAnalogs__void */
size_t stubu_nbAnalogs(const struct Header *self)
{
  __CPROVER_assert(HDR16(self), "precondition of Header::nbAnalogs(): 16-bit header words");
  return self->_nbAnalogByFrame == 0 ? 0 : vf_h_ch;
}
/* contract_Header__nbAnalogs__sz: samples = n * k */
void stubu_setNbAnalogs(struct Header *self, size_t n)
{
  __CPROVER_assert(HDR16(self) && n <= 65535, "precondition of Header::nbAnalogs(n): 16-bit header words");
  self->_nbAnalogsMeasurement = stubu_samples();
  vf_h_ch = n;
  vf_h_exact = 1;
}
/* contract_Header__nbFrames */
size_t stubu_nbFrames(const struct Header *self)
{
  __CPROVER_assert(HDR16(self), "precondition of Header::nbFrames(): 16-bit header words");
  if (self->_nb3dPoints == 0 && (self->_nbAnalogByFrame == 0 || vf_h_ch == 0))
    return 0;
  return self->_lastFrame - self->_firstFrame + 1;
}
/* contract_Header__nbAnalogByFrame__sz: sub-frames stored, channel count kept (none when there were no sub-frames) */
void stubu_setNbAnalogByFrame(struct Header *self, size_t k)
{
  __CPROVER_assert(HDR16(self) && k <= 65535, "precondition of Header::nbAnalogByFrame(k): 16-bit header words");
  if (self->_nbAnalogByFrame == 0)
    vf_h_ch = 0;
  self->_nbAnalogByFrame = k;
  self->_nbAnalogsMeasurement = stubu_samples();
  vf_h_exact = 1;
}

#define H (self->_header)
#define P_FRAMES ((size_t)vf_dir_p_frames->_param_data_int.data[0])
#define P_USED ((size_t)vf_dir_p_used->_param_data_int.data[0])
#define A_USED ((size_t)vf_dir_a_used->_param_data_int.data[0])
#define P_RATE (vf_dir_p_rate->_param_data_float.data[0])
#define A_RATE (vf_dir_a_rate->_param_data_float.data[0])
#define A_NPARAM (vf_dir_analog->_parameters.size)
#define HAS_DATA_SUB (self->_data != 0 && self->_data->_frames.size > 0 && self->_data->_frames.data[0]._analogs->_subframe.size != 0)
#define DATA_SUB (self->_data->_frames.data[0]._analogs->_subframe.size)
/* the ranges in which the float -> integer conversions of the updater are defined (C19: outside them the conversion is
 * undefined behaviour, see DESIGN 9.5) and the 16-bit capacity of the header words */
#ifdef VF_WIDE_RATES
/* unit c3d_updateHeader_rates: any finite non-negative rate - only the conversion checks of the updater are reported */
#define RATE_OK(r) ((r) >= 0.0f && (r) <= 1.0e9f)
#else
#define RATE_OK(r) ((r) >= 0.0f && (r) <= 200000.0f)
#endif

void h_c3d_updateHeader(void)
{
  struct c3d *self = (struct c3d *)vf_alloc(sizeof(*self));
  self->_header = (struct Header *)vf_alloc(sizeof(struct Header));
  self->_parameters = (struct Parameters *)vf_alloc(sizeof(struct Parameters));
  if (nondet_bool())
    self->_data = 0;
  else {
    self->_data = (struct Data *)vf_alloc(sizeof(struct Data));
    VF_MK_VEC(self->_data->_frames, struct Frame);
    if (self->_data->_frames.size > 0) {
      struct Frame *f0 = &self->_data->_frames.data[0];
      f0->_points = (struct Points *)vf_alloc(sizeof(struct Points));
      f0->_analogs = (struct Analogs *)vf_alloc(sizeof(struct Analogs));
    }
  }
  vf_dir_point = (struct Group *)vf_alloc(sizeof(struct Group));
  vf_dir_analog = (struct Group *)vf_alloc(sizeof(struct Group));
  vf_dir_p_used = vf_mk_param_int1();
  vf_dir_p_frames = vf_mk_param_int1();
  vf_dir_a_used = vf_mk_param_int1();
  vf_dir_p_rate = vf_mk_param_float1();
  vf_dir_a_rate = vf_mk_param_float1();
  vf_dir_p_labels = (struct Parameter *)vf_alloc(sizeof(struct Parameter));
  /* ---- precondition */
  __CPROVER_assume(HDR16(H) && P_FRAMES <= 65535 && P_USED <= 65535 && A_USED <= 65535 && vf_h_ch <= 65535);
  _Bool exact0 = vf_h_exact;
  __CPROVER_assume(RATE_OK(P_RATE) && RATE_OK(H->_frameRate) && RATE_OK(A_RATE));
  __CPROVER_assume(P_RATE == 0.0f || A_RATE / P_RATE <= 65535.0f);
  __CPROVER_assume(!HAS_DATA_SUB || DATA_SUB <= 65535);
  struct { size_t _parametersAddress, _checksum, _nbMaxInterpGap, _dataStart, _nbEvents, _keyLabelPresent, _firstBlockKeyLabel,
           _fourCharPresent, _nbAnalogByFrame; int _scaleFactor; vf_vec_float _eventsTime; vf_vec_string _eventsLabel; vf_vec_size_t _eventsDisplay; } h0;
  h0._parametersAddress = H->_parametersAddress; h0._checksum = H->_checksum; h0._nbMaxInterpGap = H->_nbMaxInterpGap;
  h0._dataStart = H->_dataStart; h0._nbEvents = H->_nbEvents; h0._keyLabelPresent = H->_keyLabelPresent;
  h0._firstBlockKeyLabel = H->_firstBlockKeyLabel; h0._fourCharPresent = H->_fourCharPresent; h0._nbAnalogByFrame = H->_nbAnalogByFrame;
  h0._scaleFactor = H->_scaleFactor; h0._eventsTime.data = H->_eventsTime.data; h0._eventsLabel.data = H->_eventsLabel.data;
  h0._eventsDisplay.data = H->_eventsDisplay.data;
  float hr0 = H->_frameRate;
  size_t pf = P_FRAMES, pu = P_USED, au = A_USED;
  float pr = P_RATE, ar = A_RATE;
  vf_exc = 0;
  c3d__updateHeader(self);
#ifndef VF_WIDE_RATES
  /*@ C05 C10 : updateHeader.nothrow */ __CPROVER_assert(vf_exc == 0, "never throws on a valid object");
  /*@ C05 : updateHeader.point-count-is-POINT-USED */ __CPROVER_assert(H->_nb3dPoints == P_USED, "header point count = POINT:USED");
  /* header rate = POINT:RATE to 1e-4 Hz, i.e. (int)(rate' * 1e4) == (int)(POINT:RATE * 1e4): stated as two obligations whose
   * conjunction implies it (if rate' is POINT:RATE itself the two sides are the same expression) - this keeps a second copy of
   * the float multiplier under an if-then-else out of the formula */
  /*@ C05 : updateHeader.rate-is-POINT-RATE-or-kept */
  __CPROVER_assert(H->_frameRate == P_RATE || H->_frameRate == hr0, "header rate is POINT:RATE or the old header rate");
  /*@ C05 : updateHeader.rate-kept-only-when-equal-to-1e-4 */
  __CPROVER_assert(H->_frameRate == P_RATE || (int)(hr0 * 10000.0f) == (int)(P_RATE * 10000.0f), "the old header rate is kept only when it equals POINT:RATE to 1e-4 Hz");
  /*@ C05 : updateHeader.subframes-from-data-when-present */
  __CPROVER_assert(!HAS_DATA_SUB || H->_nbAnalogByFrame == DATA_SUB, "header sub-frames = sub-frames of the stored frames");
  /*@ C05 : updateHeader.subframes-from-rate-ratio-otherwise */
  __CPROVER_assert(!(!HAS_DATA_SUB && A_NPARAM != 0) ||
                   H->_nbAnalogByFrame == ((size_t)P_RATE == 0 ? (size_t)1 : (size_t)(A_RATE / P_RATE)), "without data: sub-frames = ANALOG:RATE / POINT:RATE");
  /*@ C05 : updateHeader.subframes-kept-without-analog-parameters */
  __CPROVER_assert(!(!HAS_DATA_SUB && A_NPARAM == 0) || H->_nbAnalogByFrame == h0._nbAnalogByFrame, "no ANALOG parameters, no data: sub-frames kept");
  /*@ C05 : updateHeader.channel-count-is-ANALOG-USED */
  __CPROVER_assert(!(A_NPARAM != 0 && H->_nbAnalogByFrame >= 1) || vf_h_ch == A_USED, "header channel count = ANALOG:USED");
  /*@ C05 : updateHeader.samples-are-channels-times-subframes */
  __CPROVER_assert(!exact0 || vf_h_exact, "samples per frame = channels x sub-frames (kept if it held, established by every update)");
  /*@ C05 : updateHeader.no-analog-parameters-no-samples */
  __CPROVER_assert(A_NPARAM != 0 || (vf_h_ch == 0 && vf_h_exact), "no ANALOG parameters: no analog samples");
  /*@ C05 : updateHeader.frame-count-is-POINT-FRAMES */
  __CPROVER_assert(!(H->_nb3dPoints != 0 || (H->_nbAnalogByFrame != 0 && vf_h_ch != 0)) ||
                   H->_lastFrame - H->_firstFrame + 1 == P_FRAMES, "header frame count = POINT:FRAMES");
  /*@ C05 C17 : updateHeader.header-words-stay-16-bit */
  __CPROVER_assert(H->_nb3dPoints <= 65535 && H->_nbAnalogByFrame <= 65535, "header words stay within 16 bits");
  /*@ C05 C13 : updateHeader.frame */
  __CPROVER_assert(H->_parametersAddress == h0._parametersAddress && H->_checksum == h0._checksum && H->_nbMaxInterpGap == h0._nbMaxInterpGap &&
                   H->_scaleFactor == h0._scaleFactor && H->_dataStart == h0._dataStart && H->_nbEvents == h0._nbEvents &&
                   H->_keyLabelPresent == h0._keyLabelPresent && H->_firstBlockKeyLabel == h0._firstBlockKeyLabel &&
                   H->_fourCharPresent == h0._fourCharPresent && H->_eventsTime.data == h0._eventsTime.data &&
                   H->_eventsLabel.data == h0._eventsLabel.data && H->_eventsDisplay.data == h0._eventsDisplay.data &&
                   P_FRAMES == pf && P_USED == pu && A_USED == au && P_RATE == pr && A_RATE == ar,
                   "nothing but the six derived header words changes; the parameters are not touched");
#endif
  VF_CANARY();
}
