/* Positional accessors, typed getters, lock toggles (C11 C13 C09). */
#include "vf_harness.h"
VF_GHOSTS

#define VEC_OK(v, T) VF_VEC_OK(v, T)

/* ---- the try { return v.at(idx); } catch (out_of_range) { throw out_of_range(...); } idiom:
 *   clause 1: in range  => the element at that position is returned and nothing is thrown
 *   clause 2: otherwise => std::out_of_range  (for every 64-bit idx)                                     */
#define POS_ACCESSOR(FN, CQ, SELF_T, FIELD, ELEM_T)                                                                    \
  CQ ELEM_T *contract_##FN(CQ SELF_T *self, size_t idx)                                                                \
  __CPROVER_requires(vf_exc == 0 && __CPROVER_r_ok(self, sizeof(*self)) && VEC_OK(self->FIELD, ELEM_T))            \
  __CPROVER_ensures(idx < self->FIELD.size ==> (vf_exc == 0 && __CPROVER_return_value == &self->FIELD.data[idx]))      \
  __CPROVER_ensures(idx >= self->FIELD.size ==> vf_exc == VF_EXC_out_of_range)                                        \
  __CPROVER_assigns(vf_exc);                                                                                           \
  void h_##FN(void)                                                                                                    \
  {                                                                                                                    \
    SELF_T *self = (SELF_T *)vf_alloc(sizeof(*self));                                                                  \
    VF_MK_VEC(self->FIELD, ELEM_T);                                                                                    \
    size_t idx;                                                                                                        \
    FN(self, idx);                                                                                                     \
    __CPROVER_assert(0, "VACUITY_CANARY");                                                                             \
  }

POS_ACCESSOR(Data__frame__sz, const, struct Data, _frames, struct Frame) /*@ C11 C13 : Data_frame_at */
POS_ACCESSOR(Data__frame_nonConst, , struct Data, _frames, struct Frame) /*@ C11 C13 : Data_frame_nonConst_at */
POS_ACCESSOR(Points__point__sz, const, struct Points, _points, struct Point) /*@ C11 C13 : Points_point_at */
POS_ACCESSOR(Points__point_nonConst__sz, , struct Points, _points, struct Point) /*@ C11 C13 : Points_point_nonConst_at */
POS_ACCESSOR(Analogs__subframe__sz, const, struct Analogs, _subframe, struct SubFrame) /*@ C11 C13 : Analogs_subframe_at */
POS_ACCESSOR(Analogs__subframe_nonConst, , struct Analogs, _subframe, struct SubFrame) /*@ C11 C13 : Analogs_subframe_nonConst_at */
POS_ACCESSOR(SubFrame__channel__sz, const, struct SubFrame, _channels, struct Channel) /*@ C11 C13 : SubFrame_channel_at */
POS_ACCESSOR(SubFrame__channel_nonConst__sz, , struct SubFrame, _channels, struct Channel) /*@ C11 C13 : SubFrame_channel_nonConst_at */
POS_ACCESSOR(Parameters__group__sz, const, struct Parameters, _groups, struct Group) /*@ C11 C13 : Parameters_group_at */
POS_ACCESSOR(Parameters__group_nonConst__sz, , struct Parameters, _groups, struct Group) /*@ C11 C13 : Parameters_group_nonConst_at */
POS_ACCESSOR(Group__parameter__sz, const, struct Group, _parameters, struct Parameter) /*@ C11 C13 : Group_parameter_at */
POS_ACCESSOR(Group__parameter_nonConst__sz, , struct Group, _parameters, struct Parameter) /*@ C11 C13 : Group_parameter_nonConst_at */
POS_ACCESSOR(Header__eventsLabel__sz, const, struct Header, _eventsLabel, vf_string) /*@ C11 C13 : Header_eventsLabel_at */

/* by-value header event accessors */
float contract_Header__eventsTime__sz(const struct Header *self, size_t idx)
__CPROVER_requires(vf_exc == 0 && __CPROVER_r_ok(self, sizeof(*self)) && VEC_OK(self->_eventsTime, float))
/*@ C11 C13 : Header_eventsTime_at.in-range */
__CPROVER_ensures(idx < self->_eventsTime.size ==> (vf_exc == 0 &&
    VF_FBITS(self->_eventsTime.data[idx]) == vf_bits_of(__CPROVER_return_value)))
/*@ C11 C13 : Header_eventsTime_at.out-of-range */
__CPROVER_ensures(idx >= self->_eventsTime.size ==> vf_exc == VF_EXC_out_of_range)
__CPROVER_assigns(vf_exc);

void h_Header__eventsTime__sz(void)
{
  struct Header *self = (struct Header *)vf_alloc(sizeof(*self));
  VF_MK_VEC(self->_eventsTime, float);
  size_t idx;
  Header__eventsTime__sz(self, idx);
  __CPROVER_assert(0, "VACUITY_CANARY");
}

size_t contract_Header__eventsDisplay__sz(const struct Header *self, size_t idx)
__CPROVER_requires(vf_exc == 0 && __CPROVER_r_ok(self, sizeof(*self)) && VEC_OK(self->_eventsDisplay, size_t))
/*@ C11 C13 : Header_eventsDisplay_at.in-range */
__CPROVER_ensures(idx < self->_eventsDisplay.size ==> (vf_exc == 0 && __CPROVER_return_value == self->_eventsDisplay.data[idx]))
/*@ C11 C13 : Header_eventsDisplay_at.out-of-range */
__CPROVER_ensures(idx >= self->_eventsDisplay.size ==> vf_exc == VF_EXC_out_of_range)
__CPROVER_assigns(vf_exc);

void h_Header__eventsDisplay__sz(void)
{
  struct Header *self = (struct Header *)vf_alloc(sizeof(*self));
  VF_MK_VEC(self->_eventsDisplay, size_t);
  size_t idx;
  Header__eventsDisplay__sz(self, idx);
  __CPROVER_assert(0, "VACUITY_CANARY");
}

/* ---- type-guarded value getters: the values when the type matches, std::invalid_argument otherwise */
#define TYPED_GETTER(FN, VEC_T, FIELD, DT)                                                                             \
  const VEC_T *contract_##FN(const struct Parameter *self)                                                             \
  __CPROVER_requires(vf_exc == 0 && __CPROVER_r_ok(self, sizeof(*self)))                                            \
  __CPROVER_ensures(self->_data_type == (DT) ==> (vf_exc == 0 && __CPROVER_return_value == &self->FIELD))              \
  __CPROVER_ensures(self->_data_type != (DT) ==> vf_exc == VF_EXC_invalid_argument)                                    \
  __CPROVER_assigns(vf_exc);                                                                                           \
  void h_##FN(void)                                                                                                    \
  {                                                                                                                    \
    struct Parameter *self = (struct Parameter *)vf_alloc(sizeof(*self));                                              \
    FN(self);                                                                                                          \
    __CPROVER_assert(0, "VACUITY_CANARY");                                                                             \
  }

TYPED_GETTER(Parameter__valuesAsByte, vf_vec_int, _param_data_int, 1) /*@ C11 C13 : Parameter_valuesAsByte */
TYPED_GETTER(Parameter__valuesAsInt, vf_vec_int, _param_data_int, 2) /*@ C11 C13 : Parameter_valuesAsInt */
TYPED_GETTER(Parameter__valuesAsFloat, vf_vec_float, _param_data_float, 4) /*@ C11 C13 : Parameter_valuesAsFloat */
TYPED_GETTER(Parameter__valuesAsString, vf_vec_string, _param_data_string, -1) /*@ C11 C13 : Parameter_valuesAsString */

/* ---- lock toggles change only the flag (frame condition) */
#define LOCK_TOGGLE(FN, SELF_T, VAL)                                                                                   \
  void contract_##FN(SELF_T *self)                                                                                     \
  __CPROVER_requires(vf_exc == 0 && __CPROVER_r_ok(self, sizeof(*self)))                                            \
  __CPROVER_ensures(self->_isLocked == (VAL) && vf_exc == 0)                                                           \
  __CPROVER_assigns(self->_isLocked);                                                                                  \
  void h_##FN(void)                                                                                                    \
  {                                                                                                                    \
    SELF_T *self = (SELF_T *)vf_alloc(sizeof(*self));                                                                  \
    FN(self);                                                                                                          \
    __CPROVER_assert(0, "VACUITY_CANARY");                                                                             \
  }

LOCK_TOGGLE(Parameter__lock, struct Parameter, 1) /*@ C09 C10 : Parameter_lock */
LOCK_TOGGLE(Parameter__unlock, struct Parameter, 0) /*@ C09 C10 : Parameter_unlock */
LOCK_TOGGLE(Group__lock, struct Group, 1) /*@ C09 C10 : Group_lock */
LOCK_TOGGLE(Group__unlock, struct Group, 0) /*@ C09 C10 : Group_unlock */
