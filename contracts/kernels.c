/* Scalar kernels: byte assembly (C02 C12 C19), derived header counts (C05). */
#include "vf_harness.h"
#include "kernel_contracts.h"
VF_GHOSTS

void h_hex2uint(void)
{
  struct c3d *self = (struct c3d *)vf_alloc(sizeof(*self));
  unsigned int len;
  __CPROVER_assume(len <= 512);
  const char *val = (const char *)vf_alloc(len ? len : 1);
  c3d__hex2uint(self, val, len);
  __CPROVER_assert(0, "VACUITY_CANARY");
}

void h_hex2int(void)
{
  struct c3d *self = (struct c3d *)vf_alloc(sizeof(*self));
  unsigned int len;
  __CPROVER_assume(len <= 512);
  const char *val = (const char *)vf_alloc(len ? len : 1);
  c3d__hex2int(self, val, len);
  __CPROVER_assert(0, "VACUITY_CANARY");
}

void h_Header_nbAnalogs(void)
{
  struct Header *self = (struct Header *)vf_alloc(sizeof(*self));
  Header__nbAnalogs__void(self);
  __CPROVER_assert(0, "VACUITY_CANARY");
}

void h_Header_setNbAnalogs(void)
{
  struct Header *self = (struct Header *)vf_alloc(sizeof(*self));
  size_t n;
  Header__nbAnalogs__sz(self, n);
  __CPROVER_assert(0, "VACUITY_CANARY");
}

void h_Header_nbFrames(void)
{
  struct Header *self = (struct Header *)vf_alloc(sizeof(*self));
  Header__nbFrames(self);
  __CPROVER_assert(0, "VACUITY_CANARY");
}

void h_Header_setNbAnalogByFrame(void)
{
  struct Header *self = (struct Header *)vf_alloc(sizeof(*self));
  size_t k;
  Header__nbAnalogByFrame__sz(self, k);
  __CPROVER_assert(0, "VACUITY_CANARY");
}

#define HDR8(h) ((h)->_nbAnalogByFrame <= 255 && (h)->_nbAnalogsMeasurement <= 255 && (h)->_nb3dPoints <= 255)
void contract_B_Header__nbAnalogByFrame__sz(struct Header *self, size_t k)
__CPROVER_requires(vf_exc == 0 && __CPROVER_rw_ok(self, sizeof(*self)) && HDR8(self) && k <= 255)
/*@ C05 : Header_setNbAnalogByFrame.samples-rescaled */
__CPROVER_ensures(self->_nbAnalogsMeasurement ==
   (__CPROVER_old(self->_nbAnalogByFrame) == 0 ? 0 : __CPROVER_old(self->_nbAnalogsMeasurement) / __CPROVER_old(self->_nbAnalogByFrame)) * k)
/*@ C05 : Header_setNbAnalogByFrame.channels-kept */
__CPROVER_ensures((k >= 1 && __CPROVER_old(self->_nbAnalogByFrame) >= 1 &&
                   __CPROVER_old(self->_nbAnalogsMeasurement) % (__CPROVER_old(self->_nbAnalogByFrame) == 0 ? 1 : __CPROVER_old(self->_nbAnalogByFrame)) == 0)
   ==> self->_nbAnalogsMeasurement / (k == 0 ? 1 : k) == __CPROVER_old(self->_nbAnalogsMeasurement) / (__CPROVER_old(self->_nbAnalogByFrame) == 0 ? 1 : __CPROVER_old(self->_nbAnalogByFrame)))
__CPROVER_assigns(self->_nbAnalogsMeasurement, self->_nbAnalogByFrame);

void h_B_Header_setNbAnalogByFrame(void)
{
  struct Header *self = (struct Header *)vf_alloc(sizeof(*self));
  size_t k;
  Header__nbAnalogByFrame__sz(self, k);
  __CPROVER_assert(0, "VACUITY_CANARY");
}
