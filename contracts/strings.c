/* ezc3d::removeTrailingSpaces / Point::name / Channel::name (C11 C02).  Bounded units: the trimming loop is
 * run on the string model's bodies for every string of at most VF_BSTR characters. */
#include "vf_harness.h"
VF_GHOSTS
#define VF_BSTR 8

/* result = the longest prefix of the input that does not end in a space */
void contract_ezc3d__removeTrailingSpaces(vf_string *s)
__CPROVER_requires(vf_exc == 0 && __CPROVER_rw_ok(s, sizeof(*s)) && s->size <= VF_BSTR && __CPROVER_rw_ok(s->data, s->size + 1) && s->data[s->size] == 0)
__CPROVER_assigns(s->size, __CPROVER_object_whole(s->data))
/*@ C11 C02 : removeTrailingSpaces.not-longer */ __CPROVER_ensures(s->size <= __CPROVER_old(s->size))
/*@ C11 C02 : removeTrailingSpaces.terminated */ __CPROVER_ensures(s->data[s->size] == 0)
/*@ C11 C02 : removeTrailingSpaces.no-trailing-space-left */ __CPROVER_ensures(s->size > 0 ==> s->data[s->size - 1] != ' ')
/*@ C11 C02 : removeTrailingSpaces.prefix-kept */
__CPROVER_ensures(vf_gc < s->size ==> s->data[vf_gc] == __CPROVER_old(s->data[vf_gc < s->size ? vf_gc : 0]))
/*@ C11 C02 : removeTrailingSpaces.only-spaces-removed */
__CPROVER_ensures((vf_gc >= s->size && vf_gc < __CPROVER_old(s->size)) ==> __CPROVER_old(s->data[vf_gc < s->size ? vf_gc : 0]) == ' ')
/*@ C11 C10 : removeTrailingSpaces.nothrow */ __CPROVER_ensures(vf_exc == 0);

void h_removeTrailingSpaces(void)
{
  vf_string *s = (vf_string *)vf_alloc(sizeof(*s));
  size_t m = nondet_size_t();
  __CPROVER_assume(m <= VF_BSTR);
  s->size = m;
  s->data = (char *)vf_alloc(m + 1);
  s->data[m] = 0;
  ezc3d__removeTrailingSpaces(s);
  VF_CANARY();
}
