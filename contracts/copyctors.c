/* Point / Channel copy constructors: every stored frame goes through them (C01 C06 C08). */
#include "vf_harness.h"
VF_GHOSTS

/* the vector<float> growth 0 -> 4 in Point's constructor is run on the model body (constant bound 4) */
void contract_Point__ctor__Point(struct Point *self, const struct Point *p)
__CPROVER_requires(vf_exc == 0 && __CPROVER_rw_ok(self, sizeof(*self)) && __CPROVER_r_ok(p, sizeof(*p)) && VF_POINT_OK(*p))
__CPROVER_assigns(*self)
/*@ C01 C06 C08 C13 : Point_copy.data-fresh-4 */
__CPROVER_ensures(self->_data.size == 4 && __CPROVER_is_fresh(self->_data.data, 4 * sizeof(float)))
/*@ C01 C06 : Point_copy.x-kept */ __CPROVER_ensures(VF_FBITS(self->_data.data[0]) == VF_FBITS(p->_data.data[0]))
/*@ C01 C06 : Point_copy.y-kept */ __CPROVER_ensures(VF_FBITS(self->_data.data[1]) == VF_FBITS(p->_data.data[1]))
/*@ C01 C06 : Point_copy.z-kept */ __CPROVER_ensures(VF_FBITS(self->_data.data[2]) == VF_FBITS(p->_data.data[2]))
/*@ C01 C06 : Point_copy.residual-kept */ __CPROVER_ensures(VF_FBITS(self->_data.data[3]) == VF_FBITS(p->_data.data[3]))
/*@ C01 C06 : Point_copy.name-length */ __CPROVER_ensures(self->_name.size == p->_name.size)
/*@ C01 C06 : Point_copy.name-bytes */ __CPROVER_ensures(vf_gc <= p->_name.size ==> self->_name.data[vf_gc] == p->_name.data[vf_gc])
/*@ C08 : Point_copy.name-not-shared */ __CPROVER_ensures(self->_name.data != p->_name.data && self->_data.data != p->_data.data)
/*@ C01 C10 : Point_copy.nothrow */ __CPROVER_ensures(vf_exc == 0);

void h_Point_copy(void)
{
  struct Point *self = (struct Point *)vf_alloc(sizeof(*self));
  struct Point *p = (struct Point *)vf_alloc(sizeof(*p));
  vf_mk_point(p);
  Point__ctor__Point(self, p);
  __CPROVER_assert(0, "VACUITY_CANARY");
}

void contract_Channel__ctor__Channel(struct Channel *self, const struct Channel *channel)
__CPROVER_requires(vf_exc == 0 && __CPROVER_rw_ok(self, sizeof(*self)) && __CPROVER_r_ok(channel, sizeof(*channel)) && VF_CHANNEL_OK(*channel))
__CPROVER_assigns(*self)
/*@ C01 C06 : Channel_copy.value-kept */ __CPROVER_ensures(VF_FBITS(self->_data) == VF_FBITS(channel->_data))
/*@ C01 C06 : Channel_copy.name-length */ __CPROVER_ensures(self->_name.size == channel->_name.size)
/*@ C01 C06 : Channel_copy.name-bytes */ __CPROVER_ensures(vf_gc <= channel->_name.size ==> self->_name.data[vf_gc] == channel->_name.data[vf_gc])
/*@ C08 : Channel_copy.name-not-shared */ __CPROVER_ensures(self->_name.data != channel->_name.data)
/*@ C01 C10 : Channel_copy.nothrow */ __CPROVER_ensures(vf_exc == 0);

void h_Channel_copy(void)
{
  struct Channel *self = (struct Channel *)vf_alloc(sizeof(*self));
  struct Channel *channel = (struct Channel *)vf_alloc(sizeof(*channel));
  vf_mk_channel(channel);
  Channel__ctor__Channel(self, channel);
  __CPROVER_assert(0, "VACUITY_CANARY");
}
