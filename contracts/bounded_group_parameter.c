/* Bounded stand-in (level B, never counted as proved) for Group::parameter(const Parameter&): replace the parameter of the
 * same name in place, else append (C09 "replaces the parameter of the same name in place if present and otherwise appends
 * it ... every other parameter keeps its position").  The unbounded proof of the same clauses is the thorough-tier unit
 * Group_parameter (loop contract, 35 min); this unit keeps them decided in the quick tier and does not depend on the
 * loop structure of the function.
 * Plain CBMC with unwinding on the real function; the positional accessor, Parameter::name/type and the string comparison of
 * the model run as they are; vector<Parameter>::push_back and Parameter::operator= are recording stubs (the store itself:
 * model contract of push_back / memberwise assignment).  Bound: at most 3 parameters, names of at most 1 character. */
#include "vf_harness.h"
VF_GHOSTS
#define NP 3
size_t vf_pushed, vf_assigned;
const struct Parameter *vf_pushed_arg, *vf_assigned_arg;
const vf_vec_Parameter *vf_pushed_to;
const struct Parameter *vf_assigned_to;
void stubgp_push_back(vf_vec_Parameter *v, const struct Parameter *p)
{
  ++vf_pushed;
  vf_pushed_to = v;
  vf_pushed_arg = p;
}
void stubgp_assign(struct Parameter *self, const struct Parameter *p)
{
  ++vf_assigned;
  vf_assigned_to = self;
  vf_assigned_arg = p;
}
static void mk_name1(vf_string *s)
{
  size_t m = nondet_size_t();
  __CPROVER_assume(m <= 1);
  s->size = m;
  s->data = (char *)vf_alloc(2);
  s->data[m] = 0;
}
static _Bool same1(const vf_string *a, const vf_string *b) { return a->size == b->size && (a->size == 0 || a->data[0] == b->data[0]); }

void h_B_Group_parameter(void)
{
  struct Group *self = (struct Group *)vf_alloc(sizeof(*self));
  size_t n = nondet_size_t();
  __CPROVER_assume(n <= NP);
  self->_parameters.size = n;
  self->_parameters.data = (struct Parameter *)vf_alloc(NP * sizeof(struct Parameter));
  for (size_t i = 0; i < NP; ++i)
    if (i < n) mk_name1(&self->_parameters.data[i]._name);
  struct Parameter *p = (struct Parameter *)vf_alloc(sizeof(*p));
  mk_name1(&p->_name);
  struct Parameter *const data0 = self->_parameters.data;
  /* oracle: first position holding the name of p (names need not be unique here: the first one is the one replaced) */
  size_t at = (size_t)-1;
  for (size_t i = NP; i-- > 0;)
    if (i < n && same1(&self->_parameters.data[i]._name, &p->_name)) at = i;
  _Bool untyped = p->_data_type == 10000 /* NONE */;
  vf_pushed = 0; vf_assigned = 0; vf_exc = 0;
  Group__parameter__Parameter(self, p);
  /*@ C09 C10 : B_Group_parameter.untyped-parameter-refused-nothing-stored */
  __CPROVER_assert(!untyped || (vf_exc == VF_EXC_runtime_error && vf_pushed == 0 && vf_assigned == 0), "an untyped parameter is refused with runtime_error before anything is stored");
  /*@ C09 : B_Group_parameter.typed-parameter-accepted */
  __CPROVER_assert(untyped || vf_exc == 0, "a typed parameter is accepted");
  /*@ C09 : B_Group_parameter.absent-name-is-appended-once */
  __CPROVER_assert(untyped || at != (size_t)-1 || (vf_pushed == 1 && vf_assigned == 0 && vf_pushed_to == &self->_parameters && vf_pushed_arg == p),
                   "a parameter of a new name is appended (one push_back of p), nothing is overwritten");
  /*@ C09 : B_Group_parameter.present-name-is-replaced-in-place */
  __CPROVER_assert(untyped || at == (size_t)-1 || (vf_pushed == 0 && vf_assigned == 1 && vf_assigned_to == &data0[at] && vf_assigned_arg == p),
                   "a parameter of an existing name is assigned over the first parameter of that name; the list does not grow");
  /*@ C09 C13 : B_Group_parameter.list-touched-only-through-the-store */
  __CPROVER_assert(self->_parameters.size == n && self->_parameters.data == data0, "size and storage of the list change only through push_back / assignment: every other parameter keeps its position");
  VF_CANARY();
}
