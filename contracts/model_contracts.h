/* Contracts of the std:: model functions (model/vf_std.{h,c}), used with --replace-call-with-contract.
 * Universally quantified facts are stated at the ghost indices vf_gk / vf_gj.
 * Each contract is also enforced against the model body in the model self-verification units. */
#ifndef VF_MODEL_CONTRACTS_H
#define VF_MODEL_CONTRACTS_H
#include "vf_contracts.h"

/* Validity predicates for *requires* clauses.  They are stated with __CPROVER_r_ok: harnesses allocate the
 * pre-state explicitly (vf_harness.h), so under --enforce-contract these hold by construction, and under
 * --replace-call-with-contract they are checked at the call site (C13 obligations of the caller).
 * (Probe: the same pre-state described with nested conditional __CPROVER_is_fresh costs 10x the solver time.) */
#define VF_STR_OK(s) ((s).size <= VF_MAXSTR && __CPROVER_r_ok((s).data, (s).size + 1) && (s).data[(s).size] == 0)

/* string(const string&) : fresh buffer, same length, same bytes, terminator */
void contract_vf_string_ctor_copy(vf_string *s, const vf_string *o)
__CPROVER_requires(__CPROVER_rw_ok(s, sizeof(*s)) && __CPROVER_r_ok(o, sizeof(*o)) && VF_STR_OK(*o))
__CPROVER_assigns(s->data, s->size)
__CPROVER_ensures(s->size == o->size && __CPROVER_is_fresh(s->data, s->size + 1) && s->data[s->size] == 0)
__CPROVER_ensures(vf_gc <= s->size ==> s->data[vf_gc] == o->data[vf_gc]);

/* string() */
void contract_vf_string_ctor(vf_string *s)
__CPROVER_requires(__CPROVER_rw_ok(s, sizeof(*s)))
__CPROVER_assigns(s->data, s->size)
__CPROVER_ensures(s->size == 0 && __CPROVER_is_fresh(s->data, 1) && s->data[0] == 0);


/* ---------------------------------------------------------------- validity predicates (used in requires) */
#define VF_VEC_BYTES(v, T) (((v).size ? (v).size : 1) * sizeof(T))
#define VF_VEC_OK(v, T) ((v).size <= VF_MAXN && __CPROVER_r_ok((v).data, VF_VEC_BYTES(v, T)))
/* a Point as every constructor leaves it: four floats, a terminated name */
#define VF_POINT_OK(p) ((p)._data.size == 4 && __CPROVER_r_ok((p)._data.data, 4 * sizeof(float)) && VF_STR_OK((p)._name))
#define VF_CHANNEL_OK(c) (VF_STR_OK((c)._name))
/* Points / SubFrame / Analogs: the vector and the element at a ghost index */
#define VF_POINTS_OK(P, j) (VF_VEC_OK((P)._points, struct Point) && ((j) < (P)._points.size ==> VF_POINT_OK((P)._points.data[j])))
#define VF_SUBFRAME_OK(S, j) (VF_VEC_OK((S)._channels, struct Channel) && ((j) < (S)._channels.size ==> VF_CHANNEL_OK((S)._channels.data[j])))
#define VF_ANALOGS_OK(A, k, j) (VF_VEC_OK((A)._subframe, struct SubFrame) && ((k) < (A)._subframe.size ==> VF_SUBFRAME_OK((A)._subframe.data[k], j)))

/* ---------------------------------------------------------------- equality at ghost indices (used in ensures) */
#define VF_STR_EQ_AT(a, b, c) ((a).size == (b).size && ((c) <= (b).size ==> (a).data[c] == (b).data[c]))
#define VF_POINT_EQ_AT(a, b, c)                                                                                        \
  ((a)._data.size == 4 && VF_FBITS((a)._data.data[0]) == VF_FBITS((b)._data.data[0]) &&                                \
   VF_FBITS((a)._data.data[1]) == VF_FBITS((b)._data.data[1]) && VF_FBITS((a)._data.data[2]) == VF_FBITS((b)._data.data[2]) && \
   VF_FBITS((a)._data.data[3]) == VF_FBITS((b)._data.data[3]) && VF_STR_EQ_AT((a)._name, (b)._name, c))
#define VF_CHANNEL_EQ_AT(a, b, c) (VF_FBITS((a)._data) == VF_FBITS((b)._data) && VF_STR_EQ_AT((a)._name, (b)._name, c))

/* ---------------------------------------------------------------- vector<Point>(const vector<Point>&):
 * element-wise Point(const Point&) - stated with the *required* meaning of that constructor (C01: every
 * component kept); Point_copy is the unit that holds the real constructor to it.                          */
void contract_vf_vec_Point_ctor_copy(vf_vec_Point *v, const vf_vec_Point *o)
__CPROVER_requires(__CPROVER_rw_ok(v, sizeof(*v)) && __CPROVER_r_ok(o, sizeof(*o)) && VF_VEC_OK(*o, struct Point) && (vf_gj < o->size ==> VF_POINT_OK(o->data[vf_gj])))
__CPROVER_assigns(v->data, v->size)
__CPROVER_ensures(v->size == o->size && __CPROVER_is_fresh(v->data, VF_VEC_BYTES(*o, struct Point)))
__CPROVER_ensures(vf_gj < o->size ==> (__CPROVER_is_fresh(v->data[vf_gj]._data.data, 4 * sizeof(float)) &&
                                       __CPROVER_is_fresh(v->data[vf_gj]._name.data, o->data[vf_gj]._name.size + 1) &&
                                       VF_POINT_EQ_AT(v->data[vf_gj], o->data[vf_gj], vf_gc)));

void contract_vf_vec_Channel_ctor_copy(vf_vec_Channel *v, const vf_vec_Channel *o)
__CPROVER_requires(__CPROVER_rw_ok(v, sizeof(*v)) && __CPROVER_r_ok(o, sizeof(*o)) && VF_VEC_OK(*o, struct Channel) && (vf_gj < o->size ==> VF_CHANNEL_OK(o->data[vf_gj])))
__CPROVER_assigns(v->data, v->size)
__CPROVER_ensures(v->size == o->size && __CPROVER_is_fresh(v->data, VF_VEC_BYTES(*o, struct Channel)))
__CPROVER_ensures(vf_gj < o->size ==> (__CPROVER_is_fresh(v->data[vf_gj]._name.data, o->data[vf_gj]._name.size + 1) &&
                                       VF_CHANNEL_EQ_AT(v->data[vf_gj], o->data[vf_gj], vf_gc)));

/* vector<SubFrame>(const vector<SubFrame>&): element-wise implicit SubFrame copy = vector<Channel> copy */
void contract_vf_vec_SubFrame_ctor_copy(vf_vec_SubFrame *v, const vf_vec_SubFrame *o)
__CPROVER_requires(__CPROVER_rw_ok(v, sizeof(*v)) && __CPROVER_r_ok(o, sizeof(*o)) && VF_VEC_OK(*o, struct SubFrame) && (vf_gk < o->size ==> VF_SUBFRAME_OK(o->data[vf_gk], vf_gj)))
__CPROVER_assigns(v->data, v->size)
__CPROVER_ensures(v->size == o->size && __CPROVER_is_fresh(v->data, VF_VEC_BYTES(*o, struct SubFrame)))
__CPROVER_ensures(vf_gk < o->size ==> (v->data[vf_gk]._channels.size == o->data[vf_gk]._channels.size &&
    __CPROVER_is_fresh(v->data[vf_gk]._channels.data, VF_VEC_BYTES(o->data[vf_gk]._channels, struct Channel)) &&
    (vf_gj < o->data[vf_gk]._channels.size ==>
       (__CPROVER_is_fresh(v->data[vf_gk]._channels.data[vf_gj]._name.data, o->data[vf_gk]._channels.data[vf_gj]._name.size + 1) &&
        VF_CHANNEL_EQ_AT(v->data[vf_gk]._channels.data[vf_gj], o->data[vf_gk]._channels.data[vf_gj], vf_gc)))));


/* ---------------------------------------------------------------- vector<Frame>.  Frame has implicit copy and
 * move constructors over two shared_ptr members: copying/moving a Frame copies the two handles. */
/* NB: pointer-valued facts in ensures clauses are stated with __CPROVER_pointer_equals / __CPROVER_is_fresh: when a
 * contract replaces a call these *assign* the pointer, whereas a plain == only constrains its numeric value and
 * leaves CBMC unable to dereference it (observed: p == q proved, p->f == q->f refuted). */
#define VF_FRAME_SAME(a, b) (__CPROVER_pointer_equals((a)._points, (b)._points) && __CPROVER_pointer_equals((a)._analogs, (b)._analogs))

void contract_vf_vec_Frame_push_back(vf_vec_Frame *v, const struct Frame *x)
__CPROVER_requires(v->size < VF_MAXN && __CPROVER_rw_ok(v, sizeof(*v)) && __CPROVER_r_ok(v->data, VF_VEC_BYTES(*v, struct Frame)) && __CPROVER_r_ok(x, sizeof(*x)))
__CPROVER_assigns(v->data, v->size)
__CPROVER_frees(v->data)
__CPROVER_ensures(v->size == __CPROVER_old(v->size) + 1 && __CPROVER_is_fresh(v->data, v->size * sizeof(struct Frame)))
__CPROVER_ensures(vf_gf < __CPROVER_old(v->size) ==>
                  (__CPROVER_pointer_equals(v->data[vf_gf]._points, __CPROVER_old(v->data[vf_gf < v->size ? vf_gf : 0]._points)) &&
                   __CPROVER_pointer_equals(v->data[vf_gf]._analogs, __CPROVER_old(v->data[vf_gf < v->size ? vf_gf : 0]._analogs))))
__CPROVER_ensures(VF_FRAME_SAME(v->data[v->size - 1], *x));

/* resize(n): shrink keeps the prefix; growth relocates the old elements (handles kept) and default-constructs
 * the new ones: Frame() = fresh empty Points and Analogs */
void contract_vf_vec_Frame_resize(vf_vec_Frame *v, size_t n)
__CPROVER_requires(n <= VF_MAXN && v->size <= VF_MAXN && __CPROVER_rw_ok(v, sizeof(*v)) && __CPROVER_r_ok(v->data, VF_VEC_BYTES(*v, struct Frame)))
__CPROVER_assigns(v->data, v->size VF_GHOST_ALLOC)
__CPROVER_frees(v->data)
__CPROVER_ensures(v->size == n)
__CPROVER_ensures(n > __CPROVER_old(v->size) ==> __CPROVER_is_fresh(v->data, n * sizeof(struct Frame)))
__CPROVER_ensures(n <= __CPROVER_old(v->size) ==> __CPROVER_pointer_equals(v->data, __CPROVER_old(v->data)))
__CPROVER_ensures((vf_gf < __CPROVER_old(v->size) && vf_gf < n) ==>
                  (__CPROVER_pointer_equals(v->data[vf_gf]._points, __CPROVER_old(v->data[vf_gf < v->size ? vf_gf : 0]._points)) &&
                   __CPROVER_pointer_equals(v->data[vf_gf]._analogs, __CPROVER_old(v->data[vf_gf < v->size ? vf_gf : 0]._analogs))))
__CPROVER_ensures((vf_gf >= __CPROVER_old(v->size) && vf_gf < n) ==>
                  (__CPROVER_is_fresh(v->data[vf_gf]._points, sizeof(struct Points)) && v->data[vf_gf]._points->_points.size == 0 &&
                   __CPROVER_is_fresh(v->data[vf_gf]._analogs, sizeof(struct Analogs)) && v->data[vf_gf]._analogs->_subframe.size == 0))
__CPROVER_ensures((vf_gf2 >= __CPROVER_old(v->size) && vf_gf2 < n && vf_gf2 != vf_gf) ==>
                  (__CPROVER_is_fresh(v->data[vf_gf2]._points, sizeof(struct Points)) && v->data[vf_gf2]._points->_points.size == 0 &&
                   __CPROVER_is_fresh(v->data[vf_gf2]._analogs, sizeof(struct Analogs)) && v->data[vf_gf2]._analogs->_subframe.size == 0));

/* resize(n, x): new elements are copies of x - for Frame, copies of its two handles */
void contract_vf_vec_Frame_resize_fill(vf_vec_Frame *v, size_t n, const struct Frame *x)
__CPROVER_requires(n <= VF_MAXN && v->size <= VF_MAXN && __CPROVER_rw_ok(v, sizeof(*v)) && __CPROVER_r_ok(v->data, VF_VEC_BYTES(*v, struct Frame)) &&
                   __CPROVER_r_ok(x, sizeof(*x)))
__CPROVER_assigns(v->data, v->size)
__CPROVER_frees(v->data)
__CPROVER_ensures(v->size == n)
__CPROVER_ensures(n > __CPROVER_old(v->size) ==> __CPROVER_is_fresh(v->data, n * sizeof(struct Frame)))
__CPROVER_ensures(n <= __CPROVER_old(v->size) ==> __CPROVER_pointer_equals(v->data, __CPROVER_old(v->data)))
__CPROVER_ensures((vf_gf < __CPROVER_old(v->size) && vf_gf < n) ==>
                  (__CPROVER_pointer_equals(v->data[vf_gf]._points, __CPROVER_old(v->data[vf_gf < v->size ? vf_gf : 0]._points)) &&
                   __CPROVER_pointer_equals(v->data[vf_gf]._analogs, __CPROVER_old(v->data[vf_gf < v->size ? vf_gf : 0]._analogs))))
__CPROVER_ensures((vf_gf >= __CPROVER_old(v->size) && vf_gf < n) ==> VF_FRAME_SAME(v->data[vf_gf], *x))
__CPROVER_ensures((vf_gf2 >= __CPROVER_old(v->size) && vf_gf2 < n && vf_gf2 != vf_gf) ==> VF_FRAME_SAME(v->data[vf_gf2], *x));


/* ---------------------------------------------------------------- vector<int> / vector<float> copy assignment */
#define VF_SCALAR_VEC_ASSIGN_CONTRACT(TAG, T)                                                                          \
  void contract_vf_vec_##TAG##_assign(vf_vec_##TAG *v, const vf_vec_##TAG *o)                                          \
  __CPROVER_requires(v != o && __CPROVER_rw_ok(v, sizeof(*v)) && __CPROVER_r_ok(o, sizeof(*o)) && VF_VEC_OK(*o, T))     \
  __CPROVER_assigns(v->data, v->size)                                                                                  \
  __CPROVER_frees(v->data)                                                                                             \
  __CPROVER_ensures(v->size == o->size && __CPROVER_is_fresh(v->data, VF_VEC_BYTES(*o, T)))                            \
  __CPROVER_ensures(vf_gv < o->size ==> v->data[vf_gv] == o->data[vf_gv]);
VF_SCALAR_VEC_ASSIGN_CONTRACT(int, int)

void contract_vf_vec_float_assign(vf_vec_float *v, const vf_vec_float *o)
__CPROVER_requires(v != o && __CPROVER_rw_ok(v, sizeof(*v)) && __CPROVER_r_ok(o, sizeof(*o)) && VF_VEC_OK(*o, float))
__CPROVER_assigns(v->data, v->size)
__CPROVER_frees(v->data)
__CPROVER_ensures(v->size == o->size && __CPROVER_is_fresh(v->data, VF_VEC_BYTES(*o, float)))
__CPROVER_ensures(vf_gv < o->size ==> VF_FBITS(v->data[vf_gv]) == VF_FBITS(o->data[vf_gv]));


/* ---------------------------------------------------------------- input stream (weak precondition: any state) */
#define VF_ISTREAM_OK(f) (__CPROVER_rw_ok(f, sizeof(*(f))) && (f)->len <= VF_MAXFILE && __CPROVER_r_ok((f)->buf, (f)->len ? (f)->len : 1) && \
                          (f)->pos <= 0x10000000000L)
#define VF_AVAIL(f) (((f)->is_open && (f)->pos >= 0 && (size_t)(f)->pos < (f)->len) ? (f)->len - (size_t)(f)->pos : (size_t)0)
/* bytes available at the *entry* position (read() changes neither len nor is_open; __CPROVER_old cannot hold a ?:) */
#define VF_AVAIL_OLD(f) (((f)->is_open && __CPROVER_old((f)->pos) >= 0 && (size_t)__CPROVER_old((f)->pos) < (f)->len) ? (f)->len - (size_t)__CPROVER_old((f)->pos) : (size_t)0)

/* std::string(const char*): the caller-side fact "c[vf_gn] == 0 and c is readable up to there" is supplied through the
 * ghost vf_gn (harness: vf_gn == the length handed to readString) */
void contract_vf_string_ctor_cstr(vf_string *s, const char *c)
__CPROVER_requires(__CPROVER_rw_ok(s, sizeof(*s)) && vf_gn <= VF_MAXSTR && __CPROVER_r_ok(c, vf_gn + 1) && c[vf_gn] == 0)
__CPROVER_assigns(s->data, s->size)
__CPROVER_ensures(s->size <= vf_gn && __CPROVER_is_fresh(s->data, s->size + 1) && s->data[s->size] == 0 && c[s->size] == 0)
__CPROVER_ensures(vf_gc < s->size ==> (s->data[vf_gc] == c[vf_gc] && c[vf_gc] != 0));

void contract_vf_string_assign(vf_string *s, const vf_string *o)
__CPROVER_requires(s != o && __CPROVER_rw_ok(s, sizeof(*s)) && __CPROVER_r_ok(o, sizeof(*o)) && VF_STR_OK(*o))
__CPROVER_assigns(s->data, s->size)
__CPROVER_frees(s->data)
__CPROVER_ensures(s->size == o->size && __CPROVER_is_fresh(s->data, s->size + 1) && s->data[s->size] == 0)
__CPROVER_ensures(vf_gc < s->size ==> s->data[vf_gc] == o->data[vf_gc]);


/* istream::read (transcribed from [istream.unformatted]); content stated at the ghost character index */
void contract_vf_stream_read(vf_stream *f, char *dst, long n)
__CPROVER_requires(VF_ISTREAM_OK(f) && n >= 0 && n <= (long)VF_MAXSTR && __CPROVER_w_ok(dst, (size_t)n))
__CPROVER_assigns(f->pos, f->eof, f->fail, f->work, __CPROVER_object_upto(dst, (size_t)n))
__CPROVER_ensures((__CPROVER_old(f->eof) || __CPROVER_old(f->fail)) ==>
                  (f->fail && f->eof == __CPROVER_old(f->eof) && f->pos == __CPROVER_old(f->pos) && f->work == __CPROVER_old(f->work)))
__CPROVER_ensures((!__CPROVER_old(f->eof) && !__CPROVER_old(f->fail)) ==>
                  (f->work == __CPROVER_old(f->work) + (size_t)n &&
                   f->pos == __CPROVER_old(f->pos) + (long)((size_t)n < VF_AVAIL_OLD(f) ? (size_t)n : VF_AVAIL_OLD(f)) &&
                   (VF_AVAIL_OLD(f) < (size_t)n ? (f->eof && f->fail) : (!f->eof && !f->fail))))
__CPROVER_ensures((!__CPROVER_old(f->eof) && !__CPROVER_old(f->fail) && vf_gc < (size_t)n && vf_gc < VF_AVAIL_OLD(f)) ==>
                  (unsigned char)dst[vf_gc] == f->buf[(size_t)__CPROVER_old(f->pos) + vf_gc])
/* the first four bytes explicitly (the fixed-width readers need them all at once) */
__CPROVER_ensures((!__CPROVER_old(f->eof) && !__CPROVER_old(f->fail)) ==>
                  ((n > 0 && VF_AVAIL_OLD(f) > 0 ==> (unsigned char)dst[0] == f->buf[(size_t)__CPROVER_old(f->pos)]) &&
                   (n > 1 && VF_AVAIL_OLD(f) > 1 ==> (unsigned char)dst[1] == f->buf[(size_t)__CPROVER_old(f->pos) + 1]) &&
                   (n > 2 && VF_AVAIL_OLD(f) > 2 ==> (unsigned char)dst[2] == f->buf[(size_t)__CPROVER_old(f->pos) + 2]) &&
                   (n > 3 && VF_AVAIL_OLD(f) > 3 ==> (unsigned char)dst[3] == f->buf[(size_t)__CPROVER_old(f->pos) + 3])));


/* vector<string> copy assignment: element-wise string copies */
void contract_vf_vec_string_assign(vf_vec_string *v, const vf_vec_string *o)
__CPROVER_requires(v != o && __CPROVER_rw_ok(v, sizeof(*v)) && __CPROVER_r_ok(o, sizeof(*o)) && VF_VEC_OK(*o, vf_string) &&
                   (vf_gv < o->size ==> VF_STR_OK(o->data[vf_gv])))
__CPROVER_assigns(v->data, v->size)
__CPROVER_frees(v->data)
__CPROVER_ensures(v->size == o->size && __CPROVER_is_fresh(v->data, VF_VEC_BYTES(*o, vf_string)))
__CPROVER_ensures(vf_gv < o->size ==> (v->data[vf_gv].size == o->data[vf_gv].size &&
                                       __CPROVER_is_fresh(v->data[vf_gv].data, o->data[vf_gv].size + 1) &&
                                       v->data[vf_gv].data[v->data[vf_gv].size] == 0 &&
                                       (vf_gc < o->data[vf_gv].size ==> v->data[vf_gv].data[vf_gc] == o->data[vf_gv].data[vf_gc])));


/* ostream::write without fault injection: n bytes land at the current position; every byte of the output is
 * described at the ghost offset vf_gb (either one of the n source bytes or unchanged) */
#define VF_OSTREAM_WOK(f) (__CPROVER_rw_ok(f, sizeof(*(f))) && (f)->is_open && (f)->writable && !(f)->fail && !(f)->eof && \
                           (f)->pos >= 0 && (f)->cap <= VF_MAXFILE && __CPROVER_rw_ok((f)->buf, (f)->cap ? (f)->cap : 1))
void contract_vf_stream_write(vf_stream *f, const char *src, long n)
__CPROVER_requires(VF_OSTREAM_WOK(f) && !vf_fault_enabled && n >= 0 && n <= (long)VF_MAXSTR && (size_t)f->pos + (size_t)n <= f->cap &&
                   (n == 0 || __CPROVER_r_ok(src, (size_t)n)))
__CPROVER_assigns(f->pos, f->len, __CPROVER_object_whole(f->buf))
__CPROVER_ensures(f->pos == __CPROVER_old(f->pos) + n)
/* (an empty write does not extend the file: found by the model self-verification unit model_stream_write) */
__CPROVER_ensures(n == 0 ==> f->len == __CPROVER_old(f->len))
__CPROVER_ensures(n > 0 ==> f->len == (__CPROVER_old(f->len) > (size_t)f->pos ? __CPROVER_old(f->len) : (size_t)f->pos))
__CPROVER_ensures((vf_gb >= (size_t)__CPROVER_old(f->pos) && vf_gb < (size_t)__CPROVER_old(f->pos) + (size_t)n) ==>
                  f->buf[vf_gb] == (unsigned char)src[vf_gb - (size_t)__CPROVER_old(f->pos)])
__CPROVER_ensures((vf_gb < f->cap && !(vf_gb >= (size_t)__CPROVER_old(f->pos) && vf_gb < (size_t)__CPROVER_old(f->pos) + (size_t)n)) ==>
                  f->buf[vf_gb] == __CPROVER_old(f->buf[vf_gb < f->cap ? vf_gb : 0]));

/* ezc3d::toUpper proved in unit toUpper: same length, every character upper-cased ("C" locale) */
#define VF_UPPER(c) (((c) >= 'a' && (c) <= 'z') ? (char)((c) - 'a' + 'A') : (c))
void contract_ezc3d__toUpper(vf_string *vf_ret, const vf_string *str)
__CPROVER_requires(vf_exc == 0 && __CPROVER_rw_ok(vf_ret, sizeof(*vf_ret)) && __CPROVER_r_ok(str, sizeof(*str)) && VF_STR_OK(*str))
__CPROVER_assigns(vf_ret->data, vf_ret->size)
__CPROVER_ensures(vf_exc == 0 && vf_ret->size == str->size && __CPROVER_is_fresh(vf_ret->data, vf_ret->size + 1) && vf_ret->data[vf_ret->size] == 0)
__CPROVER_ensures(vf_gc < str->size ==> vf_ret->data[vf_gc] == VF_UPPER(str->data[vf_gc]));

#endif
