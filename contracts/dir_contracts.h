/* Ghost directory of the mandatory groups / parameters (VALID_C3D): the by-name accessor chains
 *   parameters().group("POINT").parameter("USED") ...
 * are replaced by contracts that return the directory entry for the literal asked for.  That the real look-ups return
 * the first entry whose name matches is proved separately (lookups.c); that a valid object carries these entries is the
 * assumption VALID_C3D. */
#ifndef VF_DIR_CONTRACTS_H
#define VF_DIR_CONTRACTS_H
struct Group *vf_dir_point, *vf_dir_analog;
struct Parameter *vf_dir_p_used, *vf_dir_p_labels, *vf_dir_p_rate, *vf_dir_p_frames, *vf_dir_a_used, *vf_dir_a_rate;

#define IS_LIT5(s, a, b, c, d, e) ((s)->size == 5 && (s)->data[0] == a && (s)->data[1] == b && (s)->data[2] == c && (s)->data[3] == d && (s)->data[4] == e)
#define IS_POINT(s) IS_LIT5(s, 'P', 'O', 'I', 'N', 'T')
#define IS_ANALOG(s) ((s)->size == 6 && (s)->data[0] == 'A' && (s)->data[1] == 'N' && (s)->data[2] == 'A' && (s)->data[3] == 'L' && (s)->data[4] == 'O' && (s)->data[5] == 'G')
#define IS_USED(s) ((s)->size == 4 && (s)->data[0] == 'U' && (s)->data[1] == 'S' && (s)->data[2] == 'E' && (s)->data[3] == 'D')
#define IS_RATE(s) ((s)->size == 4 && (s)->data[0] == 'R' && (s)->data[1] == 'A' && (s)->data[2] == 'T' && (s)->data[3] == 'E')
#define IS_FRAMES(s) ((s)->size == 6 && (s)->data[0] == 'F' && (s)->data[1] == 'R' && (s)->data[2] == 'A' && (s)->data[3] == 'M' && (s)->data[4] == 'E' && (s)->data[5] == 'S')
#define IS_LABELS(s) ((s)->size == 6 && (s)->data[0] == 'L' && (s)->data[1] == 'A' && (s)->data[2] == 'B' && (s)->data[3] == 'E' && (s)->data[4] == 'L' && (s)->data[5] == 'S')

/* Parameters::group(name): directory entry (first-match look-up is proved separately for the look-up functions) */
const struct Group *contract_dir_Parameters__group__str(const struct Parameters *self, const vf_string *groupName)
__CPROVER_requires(vf_exc == 0 && __CPROVER_r_ok(self, sizeof(*self)) && __CPROVER_r_ok(groupName, sizeof(*groupName)) &&
                   __CPROVER_r_ok(groupName->data, groupName->size + 1) && (IS_POINT(groupName) || IS_ANALOG(groupName)))
__CPROVER_assigns()
__CPROVER_ensures(vf_exc == 0 && (IS_POINT(groupName) ? __CPROVER_pointer_equals(__CPROVER_return_value, vf_dir_point)
                                                        : __CPROVER_pointer_equals(__CPROVER_return_value, vf_dir_analog)));

const struct Parameter *contract_dir_Group__parameter__str(const struct Group *self, vf_string *parameterName)
__CPROVER_requires(vf_exc == 0 && __CPROVER_r_ok(parameterName, sizeof(*parameterName)) && __CPROVER_r_ok(parameterName->data, parameterName->size + 1) &&
                   ((self == vf_dir_point && (IS_USED(parameterName) || IS_RATE(parameterName) || IS_LABELS(parameterName) || IS_FRAMES(parameterName))) ||
                    (self == vf_dir_analog && (IS_USED(parameterName) || IS_RATE(parameterName)))))
__CPROVER_assigns()
__CPROVER_ensures(vf_exc == 0 &&
   (self == vf_dir_point ? (IS_USED(parameterName) ? __CPROVER_pointer_equals(__CPROVER_return_value, vf_dir_p_used)
                            : IS_RATE(parameterName) ? __CPROVER_pointer_equals(__CPROVER_return_value, vf_dir_p_rate)
                            : IS_FRAMES(parameterName) ? __CPROVER_pointer_equals(__CPROVER_return_value, vf_dir_p_frames)
                                                     : __CPROVER_pointer_equals(__CPROVER_return_value, vf_dir_p_labels))
                         : (IS_USED(parameterName) ? __CPROVER_pointer_equals(__CPROVER_return_value, vf_dir_a_used)
                                                   : __CPROVER_pointer_equals(__CPROVER_return_value, vf_dir_a_rate))));


/* a temporary std::string built from a literal, seen as a view of the literal (the temporaries only travel to the
 * by-name accessors above, which read them; assumption LITERAL_VIEW) */
void contract_view_vf_string_ctor_lit(vf_string *s, const char *lit, size_t n)
__CPROVER_requires(__CPROVER_rw_ok(s, sizeof(*s)) && __CPROVER_r_ok(lit, n + 1))
__CPROVER_assigns(s->data, s->size)
__CPROVER_ensures(s->size == n && __CPROVER_pointer_equals(s->data, (char *)lit));

static struct Parameter *vf_mk_param_int1(void)
{
  struct Parameter *p = (struct Parameter *)vf_alloc(sizeof(*p));
  p->_data_type = 2;
  VF_MK_VEC(p->_param_data_int, int);
  __CPROVER_assume(p->_param_data_int.size >= 1);
  return p;
}
static struct Parameter *vf_mk_param_float1(void)
{
  struct Parameter *p = (struct Parameter *)vf_alloc(sizeof(*p));
  p->_data_type = 4;
  VF_MK_VEC(p->_param_data_float, float);
  __CPROVER_assume(p->_param_data_float.size >= 1);
  return p;
}
#endif
