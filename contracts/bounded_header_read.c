/* Bounded stand-ins (tier B, never counted as proved) for reader functions that the contract instrumentation cannot
 * handle within the resource limits: plain CBMC with unwinding; callees are replaced by abstract stubs (their
 * contracts in executable form: any result the contract allows), the harness asserts the postconditions. */
#include "vf_harness.h"
VF_GHOSTS
long nondet_long(void);
#ifndef VF_BYTE_BOUND
#define VF_BYTE_BOUND 127 /* signed bytes returned by the readInt stub (a unit may bound them) */
#endif

/* ---------------------------------------------------------------- Header::read with the read helpers replaced by *value stubs*:
 * executable forms of the contracts proved for readUint / readInt / readFloat / readString in contracts/readers.c
 * (good stream and enough bytes => the little-endian value of the file bytes and the position advanced; otherwise
 * eof|fail and an arbitrary value).  Header::read itself has only constant-bound loops, so the unwinding is complete
 * for a header that does not start with zero bytes; the image is an arbitrary 512-byte block.
 * (Running the real helpers instead - 270-byte fields through hex2uint/pow - exhausts 12 GB.) */
#include "value_stubs.h"

#define HB(o) ((unsigned)file->vf_base.buf[(o)])
#define HW(o) (HB(o) | (HB((o) + 1) << 8))
#define HD(o) (HW(o) | (HW((o) + 2) << 16))
static struct Header *mk_header_for_read(void)
{
  struct Header *h = (struct Header *)vf_alloc(sizeof(*h));
  h->_nbOfZerosBeforeHeader = 0;
  h->_eventsTime.size = 18;
  h->_eventsTime.data = (float *)vf_alloc(18 * sizeof(float));
  h->_eventsDisplay.size = 9;
  h->_eventsDisplay.data = (size_t *)vf_alloc(9 * sizeof(size_t));
  h->_eventsLabel.size = 18;
  h->_eventsLabel.data = (vf_string *)vf_alloc(18 * sizeof(vf_string));
  for (int i = 0; i < 18; ++i) {
    h->_eventsLabel.data[i].size = 0;
    h->_eventsLabel.data[i].data = (char *)vf_alloc(1);
    h->_eventsLabel.data[i].data[0] = 0;
  }
  return h;
}

void h_Header_read(void)
{
  struct c3d *file = (struct c3d *)vf_alloc(sizeof(*file));
  file->vf_base.buf = (unsigned char *)vf_alloc(512);
  file->vf_base.len = 512;
  file->vf_base.cap = 512;
  file->vf_base.pos = 0;
  file->vf_base.is_open = 1;
  file->vf_base.eof = 0;
  file->vf_base.fail = 0;
  file->vf_base.writable = 0;
  file->vf_base.work = 0;
  file->m_nByteToRead_float = 4;
  file->c_float = (char *)vf_alloc(5);
  __CPROVER_assume(HB(0) != 0); /* no zero bytes before the header (the leading-zero skipping loop is not covered by a unit) */
  struct Header *self = mk_header_for_read();
  vf_exc = 0;
  Header__read(self, file);
  /*@ C02 C16 : Header_read.magic-byte-enforced */
  __CPROVER_assert((vf_exc == 0) == (HB(1) == 0x50) && (vf_exc == 0 || vf_exc == VF_EXC_ios_failure), "accepted iff the magic byte is 0x50");
  if (vf_exc == 0) {
    /*@ C02 C12 : Header_read.parameter-block-address */ __CPROVER_assert(self->_parametersAddress == HB(0), "parameter block address");
    /*@ C02 C12 : Header_read.point-count */ __CPROVER_assert(self->_nb3dPoints == HW(2), "point count word");
    /*@ C02 C12 : Header_read.analog-samples */ __CPROVER_assert(self->_nbAnalogsMeasurement == HW(4), "analog samples word");
    /*@ C02 C12 : Header_read.first-frame-0-based */ __CPROVER_assert(self->_firstFrame == (size_t)HW(6) - 1, "first frame is 1-based in the file");
    /*@ C02 C12 C17 : Header_read.last-frame-0-based */ __CPROVER_assert(self->_lastFrame == (size_t)HW(8) - 1, "last frame is 1-based in the file");
    /*@ C02 C04 : Header_read.interpolation-gap */ __CPROVER_assert(self->_nbMaxInterpGap == HW(10), "max interpolation gap");
    /*@ C02 : Header_read.scale-word */ __CPROVER_assert((unsigned)self->_scaleFactor == HD(12), "scale factor bits");
    /*@ C02 C04 : Header_read.data-start */ __CPROVER_assert(self->_dataStart == HW(16), "data start block");
    /*@ C02 C05 : Header_read.subframes */ __CPROVER_assert(self->_nbAnalogByFrame == HW(18), "sub-frames per frame");
    /*@ C02 C12 : Header_read.frame-rate-bits */ __CPROVER_assert(vf_bits_of(self->_frameRate) == HD(20), "frame rate bit pattern");
    /*@ C02 C04 : Header_read.key-label-flag */ __CPROVER_assert(self->_keyLabelPresent == HW(294) && self->_firstBlockKeyLabel == HW(296), "key label words");
    /*@ C02 C04 : Header_read.four-char-flag */ __CPROVER_assert(self->_fourCharPresent == HW(298), "4-char flag");
    /*@ C02 C04 : Header_read.event-count */ __CPROVER_assert(self->_nbEvents == HW(300), "event count");
    /*@ C02 C04 C12 : Header_read.event-times */ __CPROVER_assert(vf_gj >= 18 || vf_bits_of(self->_eventsTime.data[vf_gj]) == HD(304 + 4 * vf_gj), "event time bit pattern");
    /*@ C02 C04 : Header_read.event-display */ __CPROVER_assert(vf_gj >= 9 || self->_eventsDisplay.data[vf_gj] == HW(376 + 2 * vf_gj), "event display word");
    /*@ C02 C04 : Header_read.event-label-text */
    __CPROVER_assert(vf_gj >= 18 || vf_gc >= self->_eventsLabel.data[vf_gj].size ||
                     (unsigned)(unsigned char)self->_eventsLabel.data[vf_gj].data[vf_gc] == HB(396 + 4 * vf_gj + vf_gc), "event label characters");
    /*@ C02 C16 : Header_read.consumes-512-bytes */ __CPROVER_assert(file->vf_base.pos == 512 && !file->vf_base.fail, "the header is 512 bytes");
  }
  VF_CANARY();
}

