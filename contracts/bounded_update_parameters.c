/* Bounded stand-in (level B, never counted as proved) for c3d::updateParameters(newPoints, newAnalogs): the parameter side
 * of the C05 invariant - POINT:FRAMES / USED / LABELS / DESCRIPTIONS / UNITS and ANALOG:USED / LABELS / DESCRIPTIONS / SCALE /
 * OFFSET / UNITS are regenerated from the stored data (or from the pending declarations while there is no frame), then the
 * header is updated.  Plain CBMC with unwinding; by-name / by-index accessors resolve through a ghost directory (VALID_C3D),
 * the Parameter::set overloads are recording stubs (their own units: Parameter_set_int / _float / B_Parameter_set_string),
 * updateHeader is a recording stub (unit c3d_updateHeader).
 * Bound: at most 2 points, 2 channels, 2 existing labels, 1 pending name of each kind; names of at most 1 character. */
#include "vf_harness.h"
VF_GHOSTS
#define NB 2
enum { K_FRAMES, K_USED, K_LABELS, K_DESCRIPTIONS, K_UNITS, K_SCALE, K_OFFSET, K_RATE, K_N };
struct Group *vf_grp[2];                 /* 0 POINT, 1 ANALOG */
struct Parameter *vf_par[2][K_N];

static int group_of(const vf_string *s)
{
  if (s->size == 5 && s->data[0] == 'P') return 0;
  __CPROVER_assert(s->size == 6 && s->data[0] == 'A', "updateParameters asks for the groups POINT and ANALOG only");
  return 1;
}
static int code_of(const vf_string *s)
{
  if (s->size == 6 && s->data[0] == 'F') return K_FRAMES;
  if (s->size == 4 && s->data[0] == 'U') return K_USED;
  if (s->size == 6 && s->data[0] == 'L') return K_LABELS;
  if (s->size == 12 && s->data[0] == 'D') return K_DESCRIPTIONS;
  if (s->size == 5 && s->data[0] == 'U') return K_UNITS;
  if (s->size == 5 && s->data[0] == 'S') return K_SCALE;
  if (s->size == 6 && s->data[0] == 'O') return K_OFFSET;
  __CPROVER_assert(0, "updateParameters asks for FRAMES USED LABELS DESCRIPTIONS UNITS SCALE OFFSET only");
  return K_RATE;
}
static int gidx(const struct Group *g) { return g == vf_grp[0] ? 0 : 1; }
size_t stubq_groupIdx(const struct Parameters *self, const vf_string *name) { return (size_t)group_of(name); }
struct Group *stubq_group_at(struct Parameters *self, size_t idx) { __CPROVER_assert(idx < 2, "group index from groupIdx"); return vf_grp[idx < 2 ? idx : 0]; }
const struct Group *stubq_group_named(const struct Parameters *self, const vf_string *name) { return vf_grp[group_of(name)]; }
size_t stubq_parameterIdx(const struct Group *self, vf_string *name) { return (size_t)code_of(name); }
const struct Parameter *stubq_param_named(const struct Group *self, vf_string *name) { return vf_par[gidx(self)][code_of(name)]; }
struct Parameter *stubq_param_named_nc(struct Group *self, vf_string *name) { return vf_par[gidx(self)][code_of(name)]; }
const struct Parameter *stubq_param_at(const struct Group *self, size_t idx) { __CPROVER_assert(idx < K_N, "parameter index from parameterIdx"); return vf_par[gidx(self)][idx < K_N ? idx : 0]; }
struct Parameter *stubq_param_at_nc(struct Group *self, size_t idx) { __CPROVER_assert(idx < K_N, "parameter index from parameterIdx"); return vf_par[gidx(self)][idx < K_N ? idx : 0]; }

/* ---- recording of the edits: per (group, code) how often it was set, the size of the new value, the scalar, and for string
 * lists the first character and length of entry vf_gv */
int vf_set_n[2][K_N];
size_t vf_set_size[2][K_N], vf_set_scalar[2][K_N], vf_set_len[2][K_N];
char vf_set_c0[2][K_N];
int vf_hdr_calls, vf_sets_at_hdr, vf_sets;
static void locate(const struct Parameter *p, int *g, int *k)
{
  *g = 0; *k = 0;
  for (int a = 0; a < 2; ++a) for (int b = 0; b < K_N; ++b) if (vf_par[a][b] == p) { *g = a; *k = b; }
}
void stubq_set_sz(struct Parameter *self, size_t v)
{
  int g, k; locate(self, &g, &k);
  ++vf_set_n[g][k]; ++vf_sets; vf_set_scalar[g][k] = v; vf_set_size[g][k] = 1;
}
void stubq_set_vstr(struct Parameter *self, const vf_vec_string *data, const vf_vec_size_t *dim)
{
  int g, k; locate(self, &g, &k);
  __CPROVER_assert(dim->size == 0, "the shape is left to the setter");
  ++vf_set_n[g][k]; ++vf_sets; vf_set_size[g][k] = data->size;
  if (vf_gv < data->size) { vf_set_len[g][k] = data->data[vf_gv].size; vf_set_c0[g][k] = data->data[vf_gv].size ? data->data[vf_gv].data[0] : 0; }
}
void stubq_set_vint(struct Parameter *self, const vf_vec_int *data, const vf_vec_size_t *dim)
{
  int g, k; locate(self, &g, &k);
  ++vf_set_n[g][k]; ++vf_sets; vf_set_size[g][k] = data->size;
}
void stubq_set_vfloat(struct Parameter *self, const vf_vec_float *data, const vf_vec_size_t *dim)
{
  int g, k; locate(self, &g, &k);
  ++vf_set_n[g][k]; ++vf_sets; vf_set_size[g][k] = data->size;
}
void stubq_updateHeader(struct c3d *self) { ++vf_hdr_calls; vf_sets_at_hdr = vf_sets; }

static void mk_name1(vf_string *s)
{
  size_t m = nondet_size_t();
  __CPROVER_assume(m <= 1);
  s->size = m;
  s->data = (char *)vf_alloc(2);
  s->data[m] = 0;
}
static struct Parameter *mk_int1(void)
{
  struct Parameter *p = (struct Parameter *)vf_alloc(sizeof(*p));
  p->_data_type = 2;
  p->_param_data_int.size = 1;
  p->_param_data_int.data = (int *)vf_alloc(sizeof(int));
  __CPROVER_assume(p->_param_data_int.data[0] >= 0 && p->_param_data_int.data[0] <= 4);
  return p;
}
static struct Parameter *mk_strs(size_t n)
{
  struct Parameter *p = (struct Parameter *)vf_alloc(sizeof(*p));
  p->_data_type = -1;
  p->_param_data_string.size = n;
  p->_param_data_string.data = (vf_string *)vf_alloc(NB * sizeof(vf_string));
  for (size_t i = 0; i < NB; ++i) if (i < n) mk_name1(&p->_param_data_string.data[i]);
  return p;
}
static vf_vec_string *mk_pending(void)
{
  vf_vec_string *v = (vf_vec_string *)vf_alloc(sizeof(*v));
  size_t n = nondet_size_t();
  __CPROVER_assume(n <= 1);
  v->size = n;
  v->data = (vf_string *)vf_alloc(sizeof(vf_string));
  if (n) mk_name1(&v->data[0]);
  return v;
}

void h_B_updateParameters(void)
{
  struct c3d *self = (struct c3d *)vf_alloc(sizeof(*self));
  self->_parameters = (struct Parameters *)vf_alloc(sizeof(struct Parameters));
  self->_data = (struct Data *)vf_alloc(sizeof(struct Data));
  size_t F = nondet_size_t(), P = nondet_size_t(), S = nondet_size_t(), C = nondet_size_t(), LP = nondet_size_t(), LA = nondet_size_t(), NS = nondet_size_t();
  __CPROVER_assume(F <= 1 && P <= NB && S <= 1 && C <= NB && LP <= NB && LA <= NB && NS <= NB);
  self->_data->_frames.size = F;
  self->_data->_frames.data = (struct Frame *)vf_alloc(sizeof(struct Frame));
  struct Points *pts = (struct Points *)vf_alloc(sizeof(*pts));
  pts->_points.size = P;
  pts->_points.data = (struct Point *)vf_alloc(NB * sizeof(struct Point));
  for (size_t i = 0; i < NB; ++i) if (i < P) mk_name1(&pts->_points.data[i]._name);
  struct Analogs *an = (struct Analogs *)vf_alloc(sizeof(*an));
  an->_subframe.size = S;
  an->_subframe.data = (struct SubFrame *)vf_alloc(sizeof(struct SubFrame));
  an->_subframe.data[0]._channels.size = C;
  an->_subframe.data[0]._channels.data = (struct Channel *)vf_alloc(NB * sizeof(struct Channel));
  for (size_t i = 0; i < NB; ++i) if (i < C) mk_name1(&an->_subframe.data[0]._channels.data[i]._name);
  self->_data->_frames.data[0]._points = pts;
  self->_data->_frames.data[0]._analogs = an;
  for (int g = 0; g < 2; ++g) {
    vf_grp[g] = (struct Group *)vf_alloc(sizeof(struct Group));
    vf_par[g][K_FRAMES] = mk_int1();
    vf_par[g][K_USED] = mk_int1();
    vf_par[g][K_LABELS] = mk_strs(g == 0 ? LP : LA);
    vf_par[g][K_DESCRIPTIONS] = mk_strs(0);
    vf_par[g][K_UNITS] = mk_strs(g == 0 ? 0 : NS);
    vf_par[g][K_RATE] = mk_int1();
  }
  /* ANALOG:SCALE (floats) and OFFSET (ints) with NS entries */
  vf_par[1][K_SCALE] = (struct Parameter *)vf_alloc(sizeof(struct Parameter));
  vf_par[1][K_SCALE]->_data_type = 4;
  vf_par[1][K_SCALE]->_param_data_float.size = NS;
  vf_par[1][K_SCALE]->_param_data_float.data = (float *)vf_alloc(NB * sizeof(float));
  vf_par[1][K_OFFSET] = (struct Parameter *)vf_alloc(sizeof(struct Parameter));
  vf_par[1][K_OFFSET]->_data_type = 2;
  vf_par[1][K_OFFSET]->_param_data_int.size = NS;
  vf_par[1][K_OFFSET]->_param_data_int.data = (int *)vf_alloc(NB * sizeof(int));
  vf_par[0][K_SCALE] = vf_par[0][K_OFFSET] = 0;
  vf_vec_string *newPoints = mk_pending(), *newAnalogs = mk_pending();
  for (int g = 0; g < 2; ++g) for (int k = 0; k < K_N; ++k) vf_set_n[g][k] = 0;
  vf_sets = 0; vf_hdr_calls = 0; vf_exc = 0;
  size_t frames0 = (size_t)vf_par[0][K_FRAMES]->_param_data_int.data[0];
  size_t pused0 = (size_t)vf_par[0][K_USED]->_param_data_int.data[0], aused0 = (size_t)vf_par[1][K_USED]->_param_data_int.data[0];
  _Bool misuse = F != 0 && (newPoints->size > 0 || newAnalogs->size > 0);
  size_t nP = F > 0 ? P : LP + newPoints->size;
  size_t nA = F > 0 ? (S > 0 ? C : 0) : LA + newAnalogs->size;
  /* pre-state: C05 held before the data edit (SCALE / OFFSET / UNITS have one entry per declared channel), and the public
   * API never removes a channel */
  __CPROVER_assume(NS == aused0 && nA >= aused0);
  c3d__updateParameters(self, newPoints, newAnalogs);
  /*@ C05 C10 : updateParameters.pending-names-only-on-an-object-without-frames */
  __CPROVER_assert(misuse ? (vf_exc == VF_EXC_runtime_error && vf_sets == 0 && vf_hdr_calls == 0) : vf_exc == 0, "pending names with frames present: refused before any edit; otherwise never throws");
  if (!misuse) {
    /*@ C05 : updateParameters.FRAMES-is-the-number-of-stored-frames */
    __CPROVER_assert(frames0 == F ? vf_set_n[0][K_FRAMES] == 0 : (vf_set_n[0][K_FRAMES] == 1 && vf_set_scalar[0][K_FRAMES] == F), "POINT:FRAMES = stored frames");
    /*@ C05 : updateParameters.POINT-USED-is-the-number-of-points */
    __CPROVER_assert(pused0 == nP ? vf_set_n[0][K_USED] == 0 : (vf_set_n[0][K_USED] == 1 && vf_set_scalar[0][K_USED] == nP), "POINT:USED = points of frame 0, or labels + pending names");
    /*@ C05 : updateParameters.point-lists-have-one-entry-per-point */
    __CPROVER_assert(pused0 == nP || (vf_set_n[0][K_LABELS] == 1 && vf_set_size[0][K_LABELS] == nP && vf_set_n[0][K_DESCRIPTIONS] == 1 &&
                                      vf_set_size[0][K_DESCRIPTIONS] == nP && vf_set_n[0][K_UNITS] == 1 && vf_set_size[0][K_UNITS] == nP),
                     "LABELS / DESCRIPTIONS / UNITS regenerated with one entry per point");
    if (pused0 != nP && vf_gv < nP) {
      const vf_string *want = F > 0 ? &pts->_points.data[vf_gv]._name
                                    : (vf_gv < LP ? &vf_par[0][K_LABELS]->_param_data_string.data[vf_gv] : &newPoints->data[vf_gv - LP]);
      /*@ C05 : updateParameters.point-labels-in-data-order */
      __CPROVER_assert(vf_set_len[0][K_LABELS] == want->size && (want->size == 0 || vf_set_c0[0][K_LABELS] == want->data[0]),
                       "label k = name of point k of the stored frames (or the existing labels followed by the pending names)");
    }
    /*@ C05 : updateParameters.ANALOG-USED-is-the-number-of-channels */
    __CPROVER_assert(aused0 == nA ? vf_set_n[1][K_USED] == 0 : (vf_set_n[1][K_USED] == 1 && vf_set_scalar[1][K_USED] == nA), "ANALOG:USED = channels of sub-frame 0, or labels + pending names");
    /*@ C05 : updateParameters.channel-lists-have-one-entry-per-channel */
    __CPROVER_assert(aused0 == nA || (vf_set_n[1][K_LABELS] == 1 && vf_set_size[1][K_LABELS] == nA && vf_set_n[1][K_DESCRIPTIONS] == 1 &&
                                      vf_set_size[1][K_DESCRIPTIONS] == nA && vf_set_n[1][K_SCALE] == 1 && vf_set_n[1][K_OFFSET] == 1 && vf_set_n[1][K_UNITS] == 1 &&
                                      vf_set_size[1][K_SCALE] == nA && vf_set_size[1][K_OFFSET] == nA && vf_set_size[1][K_UNITS] == nA),
                     "LABELS / DESCRIPTIONS / SCALE / OFFSET / UNITS regenerated with one entry per channel");
    if (aused0 != nA && vf_gv < nA) {
      const vf_string *want = F > 0 ? &an->_subframe.data[0]._channels.data[vf_gv]._name
                                    : (vf_gv < LA ? &vf_par[1][K_LABELS]->_param_data_string.data[vf_gv] : &newAnalogs->data[vf_gv - LA]);
      /*@ C05 : updateParameters.channel-labels-in-data-order */
      __CPROVER_assert(vf_set_len[1][K_LABELS] == want->size && (want->size == 0 || vf_set_c0[1][K_LABELS] == want->data[0]),
                       "label k = name of channel k of the stored frames (or the existing labels followed by the pending names)");
    }
    /*@ C05 : updateParameters.header-updated-last */
    __CPROVER_assert(vf_hdr_calls == 1 && vf_sets_at_hdr == vf_sets, "updateHeader is called once, after every parameter edit");
  }
  VF_CANARY();
}
