/* Variable-length record writers (appendix A.3/A.4): Group::write header part, Parameter::write for a one-dimensional
 * character parameter (C03 C04 C13 C14 C17).  Every byte of the record is described at the ghost offset vf_gb. */
#include "vf_harness.h"
VF_GHOSTS

#define S0 ((size_t)__CPROVER_old(f->pos))
#define NAMELEN (self->_name.size)
#define DESCLEN (self->_description.size)
#define BYTE_AT(o, v) (vf_gb == (o) ==> f->buf[vf_gb] == (unsigned char)(v))

/* ---------------------------------------------------------------- Group::write (record of a group without parameters) */
void contract_Group__write(const struct Group *self, vf_stream *f, int groupIdx, vf_spos *dataStartPosition)
__CPROVER_requires(vf_exc == 0 && __CPROVER_r_ok(self, sizeof(*self)) && VF_STR_OK(self->_name) && VF_STR_OK(self->_description) &&
                   NAMELEN <= 127 && DESCLEN <= 255 && self->_parameters.size == 0 && groupIdx >= -128 && groupIdx <= -1 &&
                   VF_OSTREAM_WOK(f) && !vf_fault_enabled && f->cap == 4096 && (size_t)f->pos + 5 + 127 + 255 <= f->cap &&
                   f->len == (size_t)f->pos && __CPROVER_rw_ok(dataStartPosition, sizeof(*dataStartPosition)))
__CPROVER_assigns(f->pos, f->len, f->eof, f->fail, __CPROVER_object_whole(f->buf))
/*@ C03 C14 : Group_write.record-length */
__CPROVER_ensures(!f->fail && (size_t)f->pos == S0 + 5 + NAMELEN + DESCLEN && f->len == (size_t)f->pos)
/*@ C03 C17 : Group_write.name-length-byte-with-lock-sign */
__CPROVER_ensures(BYTE_AT(S0, self->_isLocked ? -(int)NAMELEN : (int)NAMELEN))
/*@ C03 : Group_write.group-id-byte */ __CPROVER_ensures(BYTE_AT(S0 + 1, groupIdx))
/*@ C03 C01 : Group_write.name-upper-case */
__CPROVER_ensures((vf_gb >= S0 + 2 && vf_gb < S0 + 2 + NAMELEN) ==> f->buf[vf_gb] == (unsigned char)VF_UPPER(self->_name.data[vf_gb - S0 - 2]))
/*@ C03 C17 : Group_write.next-offset-low-byte */ __CPROVER_ensures(BYTE_AT(S0 + 2 + NAMELEN, (3 + DESCLEN) & 0xFF))
/*@ C03 C17 : Group_write.next-offset-high-byte */ __CPROVER_ensures(BYTE_AT(S0 + 3 + NAMELEN, (3 + DESCLEN) >> 8))
/*@ C03 C17 C04 : Group_write.description-length-byte */ __CPROVER_ensures(BYTE_AT(S0 + 4 + NAMELEN, DESCLEN))
/*@ C03 C04 C14 : Group_write.description-bytes */
__CPROVER_ensures((vf_gb >= S0 + 5 + NAMELEN && vf_gb < S0 + 5 + NAMELEN + DESCLEN) ==>
                  f->buf[vf_gb] == (unsigned char)self->_description.data[vf_gb - S0 - 5 - NAMELEN])
/*@ C14 C03 : Group_write.earlier-bytes-untouched */
__CPROVER_ensures(vf_gb < S0 ==> f->buf[vf_gb] == __CPROVER_old(f->buf[vf_gb < f->cap ? vf_gb : 0]))
/*@ C10 C14 : Group_write.nothrow */ __CPROVER_ensures(vf_exc == 0);

void h_Group_write(void)
{
  struct Group *self = (struct Group *)vf_alloc(sizeof(*self));
  vf_mk_string(&self->_name);
  vf_mk_string(&self->_description);
  self->_parameters.size = 0;
  self->_parameters.data = (struct Parameter *)vf_alloc(sizeof(struct Parameter));
  vf_stream *f = vf_mk_ostream(4096);
  long p0;
  __CPROVER_assume(p0 >= 0 && p0 + 5 + 127 + 255 <= 4096);
  f->pos = p0;
  f->len = (size_t)p0;
  vf_fault_enabled = 0;
  vf_spos *dsp = (vf_spos *)vf_alloc(sizeof(vf_spos));
  int id;
  /* the character index at which toUpper's contract is instantiated is the one the ghost byte offset falls on */
  __CPROVER_assume(vf_gb < (size_t)p0 + 2 || vf_gc == vf_gb - (size_t)p0 - 2);
  Group__write(self, f, id, dsp);
  VF_CANARY();
}

/* capacity limits of the group record (C17): beyond them saving must refuse (or still round-trip) */
void contract_L_Group__write(const struct Group *self, vf_stream *f, int groupIdx, vf_spos *dataStartPosition)
__CPROVER_requires(vf_exc == 0 && __CPROVER_r_ok(self, sizeof(*self)) && VF_STR_OK(self->_name) && VF_STR_OK(self->_description) &&
                   NAMELEN <= 300 && DESCLEN <= 600 && self->_parameters.size == 0 && groupIdx >= -128 && groupIdx <= -1 &&
                   VF_OSTREAM_WOK(f) && !vf_fault_enabled && f->cap == 4096 && (size_t)f->pos + 5 + 300 + 600 <= f->cap &&
                   f->len == (size_t)f->pos && __CPROVER_rw_ok(dataStartPosition, sizeof(*dataStartPosition)))
__CPROVER_assigns(vf_exc, f->pos, f->len, f->eof, f->fail, __CPROVER_object_whole(f->buf))
/*@ C17 : Group_write.name-over-127-refused */ __CPROVER_ensures(NAMELEN > 127 ==> vf_exc != 0)
/*@ C17 : Group_write.description-over-255-refused */ __CPROVER_ensures(DESCLEN > 255 ==> vf_exc != 0)
/*@ C17 : Group_write.at-limit-accepted */ __CPROVER_ensures((NAMELEN <= 127 && DESCLEN <= 255) ==> vf_exc == 0);

void h_L_Group_write(void)
{
  struct Group *self = (struct Group *)vf_alloc(sizeof(*self));
  vf_mk_string(&self->_name);
  vf_mk_string(&self->_description);
  self->_parameters.size = 0;
  self->_parameters.data = (struct Parameter *)vf_alloc(sizeof(struct Parameter));
  vf_stream *f = vf_mk_ostream(4096);
  long p0;
  __CPROVER_assume(p0 >= 0 && p0 + 5 + 300 + 600 <= 4096);
  f->pos = p0;
  f->len = (size_t)p0;
  vf_fault_enabled = 0;
  vf_spos *dsp = (vf_spos *)vf_alloc(sizeof(vf_spos));
  int id;
  Group__write(self, f, id, dsp);
  VF_CANARY();
}

/* ---------------------------------------------------------------- Parameter::write, one-dimensional character parameter
 * (the state the *reader* produces for a 1-D string: declared width kept in _dimension[0], text trimmed) */
#undef NAMELEN
#undef DESCLEN
#define PNAME (self->_name.size)
#define PDESC (self->_description.size)
#define D0 (self->_dimension.data[0])
#define TXT (self->_param_data_string.data[0])
void contract_Parameter__write(const struct Parameter *self, vf_stream *f, int groupIdx, vf_spos *dataStartPosition)
__CPROVER_requires(vf_exc == 0 && __CPROVER_r_ok(self, sizeof(*self)) && VF_STR_OK(self->_name) && VF_STR_OK(self->_description) &&
                   PNAME >= 1 && PNAME <= 127 && PDESC <= 255 && groupIdx >= 1 && groupIdx <= 127 && self->_data_type == -1 &&
                   self->_dimension.size == 1 && __CPROVER_r_ok(self->_dimension.data, sizeof(size_t)) && D0 >= 2 && D0 <= 4 && /* bounded: the padding loop is unwound (declared widths 2..4) */
                   self->_param_data_string.size == 1 && __CPROVER_r_ok(self->_param_data_string.data, sizeof(vf_string)) &&
                   VF_STR_OK(TXT) && TXT.size <= D0 &&
                   VF_OSTREAM_WOK(f) && !vf_fault_enabled && f->cap == 4096 && (size_t)f->pos + 8 + 127 + 255 + 255 <= f->cap &&
                   f->len == (size_t)f->pos && __CPROVER_rw_ok(dataStartPosition, sizeof(*dataStartPosition)))
__CPROVER_assigns(f->pos, f->len, f->eof, f->fail, __CPROVER_object_whole(f->buf))
/*@ C04 C03 : Parameter_write_char1d.cell-has-the-declared-width */
__CPROVER_ensures(!f->fail && (size_t)f->pos == S0 + 2 + PNAME + 2 + 1 + 1 + 1 + D0 + 1 + PDESC && f->len == (size_t)f->pos)
/*@ C03 C17 : Parameter_write_char1d.name-length-byte-with-lock-sign */
__CPROVER_ensures(BYTE_AT(S0, self->_isLocked ? -(int)PNAME : (int)PNAME))
/*@ C03 : Parameter_write_char1d.group-id-byte */ __CPROVER_ensures(BYTE_AT(S0 + 1, groupIdx))
/*@ C03 C12 : Parameter_write_char1d.type-byte-is-minus-one */ __CPROVER_ensures(BYTE_AT(S0 + 4 + PNAME, 0xFF))
/*@ C03 C04 : Parameter_write_char1d.one-dimension */ __CPROVER_ensures(BYTE_AT(S0 + 5 + PNAME, 1))
/*@ C03 C04 C17 : Parameter_write_char1d.declared-width-byte */ __CPROVER_ensures(BYTE_AT(S0 + 6 + PNAME, D0))
/*@ C03 C04 C14 : Parameter_write_char1d.text-bytes */
__CPROVER_ensures((vf_gb >= S0 + 7 + PNAME && vf_gb < S0 + 7 + PNAME + TXT.size) ==> f->buf[vf_gb] == (unsigned char)TXT.data[vf_gb - S0 - 7 - PNAME])
/*@ C04 C14 : Parameter_write_char1d.text-padded-with-spaces */
__CPROVER_ensures((vf_gb >= S0 + 7 + PNAME + TXT.size && vf_gb < S0 + 7 + PNAME + D0) ==> f->buf[vf_gb] == ' ')
/*@ C10 C14 : Parameter_write_char1d.nothrow */ __CPROVER_ensures(vf_exc == 0);

void h_Parameter_write_char1d(void)
{
  struct Parameter *self = (struct Parameter *)vf_alloc(sizeof(*self));
  vf_mk_string(&self->_name);
  vf_mk_string(&self->_description);
  self->_data_type = -1;
  self->_dimension.size = 1;
  self->_dimension.data = (size_t *)vf_alloc(sizeof(size_t));
  self->_param_data_string.size = 1;
  self->_param_data_string.data = (vf_string *)vf_alloc(sizeof(vf_string));
  vf_mk_string(&self->_param_data_string.data[0]);
  vf_stream *f = vf_mk_ostream(4096);
  long p0;
  __CPROVER_assume(p0 >= 0 && p0 + 8 + 127 + 255 + 255 <= 4096);
  f->pos = p0;
  f->len = (size_t)p0;
  vf_fault_enabled = 0;
  vf_spos *dsp = (vf_spos *)vf_alloc(sizeof(vf_spos));
  int id;
  Parameter__write(self, f, id, dsp);
  VF_CANARY();
}
