/* Bounded stand-in (level B, never counted as proved) for the recursive matrix readers c3d::readParam(int / float form):
 * elements are read in row order, one per leaf, and the work stays proportional to the bytes that exist (C16).
 * Plain CBMC, recursion and loops unwound; readInt / readFloat are the value stubs (their proved contracts).
 * Bound: VF_ND = 1 or 2 dimensions (one unit each) of at most 3, image of VF_IMG bytes (short enough that the end of the file is reached). */
#include "vf_harness.h"
VF_GHOSTS
long nondet_long(void);
#ifdef VF_MATRIX_STRING
#define VF_STUB_STR_CUT
#endif
#include "value_stubs.h"
#ifndef VF_IMG
#define VF_IMG 6
#endif
#ifndef VF_ND
#define VF_ND 2
#endif
#ifdef VF_MATRIX_FLOAT
#define WIDTH 4
#else
#define WIDTH 2
#endif

void h_B_readParam(void)
{
  struct c3d *file = (struct c3d *)vf_alloc(sizeof(*file));
  unsigned char *img = (unsigned char *)vf_alloc(VF_IMG);
  size_t len = nondet_size_t();
  __CPROVER_assume(len <= VF_IMG);
  file->vf_base.buf = img;
  file->vf_base.len = len;
  file->vf_base.cap = VF_IMG;
  file->vf_base.pos = 0;
  file->vf_base.is_open = 1;
  file->vf_base.eof = 0;
  file->vf_base.fail = 0;
  file->vf_base.writable = 0;
  file->vf_base.work = 0;
  vf_vec_size_t *dims = (vf_vec_size_t *)vf_alloc(sizeof(*dims));
  size_t nd = VF_ND; /* a constant: the recursion depth is then decided during symbolic execution */
  dims->size = nd;
  dims->data = (size_t *)vf_alloc(2 * sizeof(size_t));
  __CPROVER_assume(dims->data[0] <= 3 && (nd < 2 || dims->data[1] <= 3));
  size_t n = dims->data[0] * (nd == 2 ? dims->data[1] : 1);
  vf_exc = 0;
#ifdef VF_MATRIX_FLOAT
  vf_vec_float *out = (vf_vec_float *)vf_alloc(sizeof(*out));
  out->size = 0; out->data = 0;
  c3d__readParam__vsz_vfloat_sz(file, dims, out, 0);
#else
  vf_vec_int *out = (vf_vec_int *)vf_alloc(sizeof(*out));
  out->size = 0; out->data = 0;
  c3d__readParam__uint_vsz_vint_sz(file, WIDTH, dims, out, 0);
#endif
  /*@ C16 : readParam.only-standard-exceptions */
  __CPROVER_assert(vf_exc == 0 || vf_exc == VF_EXC_ios_failure, "returns, or throws ios_base::failure");
  /*@ C16 : readParam.work-proportional-to-the-bytes-that-exist */
  __CPROVER_assert(file->vf_base.work <= len + WIDTH, "at most one request beyond the end of the file");
  /*@ C16 C02 : readParam.complete-matrix-is-accepted */
  __CPROVER_assert(!(n * WIDTH <= len) || (vf_exc == 0 && out->size == n), "a matrix that is entirely in the file is read");
  /*@ C16 C02 : readParam.truncated-matrix-is-refused */
  __CPROVER_assert(!(n * WIDTH > len) || vf_exc == VF_EXC_ios_failure, "a matrix that runs past the end of the file is refused");
  if (vf_exc == 0 && vf_gv < n && n * WIDTH <= len) {
#ifdef VF_MATRIX_FLOAT
    /*@ C02 C12 : readParam.float-elements-in-file-order */
    __CPROVER_assert(vf_bits_of(out->data[vf_gv]) == ((unsigned)img[4 * vf_gv] | ((unsigned)img[4 * vf_gv + 1] << 8) | ((unsigned)img[4 * vf_gv + 2] << 16) | ((unsigned)img[4 * vf_gv + 3] << 24)), "element k is the k-th little-endian float of the record");
#else
    /*@ C02 C12 : readParam.int-elements-in-file-order */
    __CPROVER_assert(out->data[vf_gv] == (int)(short)(unsigned short)((unsigned)img[2 * vf_gv] | ((unsigned)img[2 * vf_gv + 1] << 8)), "element k is the k-th little-endian 16-bit integer of the record");
#endif
  }
  VF_CANARY();
}

#ifdef VF_MATRIX_STRING
/* ---------------------------------------------------------------- string form: c3d::readParam(dims, strings) = _readMatrix (one
 * 1-character string per cell) + _dispatchMatrix (rows of dims[0] characters, trailing spaces trimmed).
 * Bound: VF_SR rows of VF_SW characters (constants of the unit), image of at most VF_IMG non-NUL bytes, any truncation. */
#define VF_STUB_STR_CUT
void h_B_readParam_string(void)
{
  struct c3d *file = (struct c3d *)vf_alloc(sizeof(*file));
  unsigned char *img = (unsigned char *)vf_alloc(VF_IMG);
  size_t len = nondet_size_t();
  __CPROVER_assume(len <= VF_IMG);
  for (size_t i = 0; i < VF_IMG; ++i) __CPROVER_assume(img[i] != 0);
  file->vf_base.buf = img;
  file->vf_base.len = len;
  file->vf_base.cap = VF_IMG;
  file->vf_base.pos = 0;
  file->vf_base.is_open = 1;
  file->vf_base.eof = 0;
  file->vf_base.fail = 0;
  file->vf_base.writable = 0;
  file->vf_base.work = 0;
  vf_vec_size_t *dims = (vf_vec_size_t *)vf_alloc(sizeof(*dims));
  dims->size = 2;
  dims->data = (size_t *)vf_alloc(2 * sizeof(size_t));
  dims->data[0] = VF_SW; dims->data[1] = VF_SR;   /* constants: loop and recursion structure decided during symbolic execution */
  size_t w = VF_SW, rows = VF_SR, n = w * rows;
  vf_vec_string *out = (vf_vec_string *)vf_alloc(sizeof(*out));
  out->size = 0; out->data = 0;
  vf_exc = 0;
  c3d__readParam__vsz_vstr(file, dims, out);
  /*@ C16 : readParam_string.only-standard-exceptions */
  __CPROVER_assert(vf_exc == 0 || vf_exc == VF_EXC_ios_failure, "returns, or throws ios_base::failure");
  /*@ C16 : readParam_string.work-proportional-to-the-bytes-that-exist */
  __CPROVER_assert(file->vf_base.work <= len + 1, "at most one request beyond the end of the file");
  /*@ C16 C02 : readParam_string.truncated-matrix-is-refused */
  __CPROVER_assert(!(n > len) || vf_exc == VF_EXC_ios_failure, "a matrix that runs past the end of the file is refused");
  /*@ C16 C02 : readParam_string.complete-matrix-is-accepted */
  __CPROVER_assert(!(n <= len) || (vf_exc == 0 && out->size == rows), "one string per row");
  if (vf_exc == 0 && n <= len && vf_gv < rows) {
    size_t t = w;                                  /* length after trimming the trailing spaces of row vf_gv */
    for (size_t k = 3; k-- > 0;) if (k < w && t == k + 1 && img[vf_gv * w + k] == ' ') t = k;
    /*@ C02 C11 : readParam_string.row-is-its-characters-without-trailing-spaces */
    __CPROVER_assert(out->data[vf_gv].size == t && (vf_gc >= t || (unsigned char)out->data[vf_gv].data[vf_gc] == img[vf_gv * w + vf_gc]),
                     "row k = bytes k*w .. k*w+w-1 of the record, trailing spaces removed");
  }
  VF_CANARY();
}
#endif
