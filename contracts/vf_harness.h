/* Harness-side construction of pre-states (see model_contracts.h: validity predicates).
 * Every builder allocates with malloc and leaves all content nondeterministic (CBMC gives fresh heap memory
 * nondeterministic content), constraining only what the corresponding VF_*_OK predicate states.  Container
 * elements are made valid at the ghost indices only; a function that dereferences any other element's inner
 * storage fails its pointer checks, which is what forces the proofs to be modular. */
#ifndef VF_HARNESS_H
#define VF_HARNESS_H
#include "model_contracts.h"

size_t nondet_size_t(void);
int nondet_int(void);
unsigned nondet_unsigned(void);
_Bool nondet_bool(void);

static inline void *vf_alloc(size_t n)
{
  void *p = malloc(n);
  __CPROVER_assume(p != 0);
  return p;
}

static inline void vf_mk_string(vf_string *s)
{
  size_t m = nondet_size_t();
  __CPROVER_assume(m <= VF_MAXSTR);
  s->size = m;
  s->data = (char *)vf_alloc(m + 1);
  s->data[m] = 0;
}

#define VF_MK_VEC(v, T)                                                                                                \
  do {                                                                                                                 \
    size_t vf_n_ = nondet_size_t();                                                                                    \
    __CPROVER_assume(vf_n_ <= VF_MAXN);                                                                                \
    (v).size = vf_n_;                                                                                                  \
    (v).data = (T *)vf_alloc((vf_n_ ? vf_n_ : 1) * sizeof(T));                                                         \
  } while (0)

static inline void vf_mk_point(struct Point *p)
{
  p->_data.size = 4;
  p->_data.data = (float *)vf_alloc(4 * sizeof(float));
  vf_mk_string(&p->_name);
}

static inline void vf_mk_channel(struct Channel *c) { vf_mk_string(&c->_name); }

static inline struct Points *vf_mk_points(void)
{
  struct Points *P = (struct Points *)vf_alloc(sizeof(*P));
  VF_MK_VEC(P->_points, struct Point);
  if (vf_gj < P->_points.size)
    vf_mk_point(&P->_points.data[vf_gj]);
  return P;
}

static inline void vf_mk_subframe_in(struct SubFrame *S)
{
  VF_MK_VEC(S->_channels, struct Channel);
  if (vf_gj < S->_channels.size)
    vf_mk_channel(&S->_channels.data[vf_gj]);
}

static inline struct Analogs *vf_mk_analogs(void)
{
  struct Analogs *A = (struct Analogs *)vf_alloc(sizeof(*A));
  VF_MK_VEC(A->_subframe, struct SubFrame);
  if (vf_gk < A->_subframe.size)
    vf_mk_subframe_in(&A->_subframe.data[vf_gk]);
  return A;
}

static inline void vf_mk_frame_in(struct Frame *f)
{
  f->_points = vf_mk_points();
  f->_analogs = vf_mk_analogs();
}

/* an output stream positioned at 0 on an empty device of `cap` bytes */
static inline vf_stream *vf_mk_ostream(size_t cap)
{
  vf_stream *f = (vf_stream *)vf_alloc(sizeof(*f));
  f->buf = (unsigned char *)vf_alloc(cap ? cap : 1);
  f->cap = cap;
  f->len = 0;
  f->pos = 0;
  f->is_open = 1;
  f->eof = 0;
  f->fail = 0;
  f->writable = 1;
  f->work = 0;
  return f;
}

/* an input stream over an arbitrary file image, in an arbitrary state (weak precondition of C16) */
static inline void vf_mk_istream_in(vf_stream *f)
{
  size_t len = nondet_size_t();
  __CPROVER_assume(len <= VF_MAXFILE);
  f->buf = (unsigned char *)vf_alloc(len ? len : 1);
  f->len = len;
  f->cap = len;
  long pos;
  __CPROVER_assume(pos >= -1 && pos <= 0x1000000000L);
  f->pos = pos;
  f->is_open = nondet_bool();
  f->eof = nondet_bool();
  f->fail = nondet_bool();
  f->writable = 0;
  f->work = 0;
}

static inline struct c3d *vf_mk_c3d_reader(void)
{
  struct c3d *c = (struct c3d *)vf_alloc(sizeof(*c));
  vf_mk_istream_in(&c->vf_base);
  c->m_nByteToRead_float = 4;
  c->c_float = (char *)vf_alloc(5);
#ifdef VF_TRACK_ALLOC
  vf_trk_ptr = 0; /* no allocation is being tracked yet; any size may have been requested before */
  vf_trk_kind = 0;
#endif
  return c;
}

#define VF_CANARY() __CPROVER_assert(0, "VACUITY_CANARY")
#endif
