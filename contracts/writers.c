/* Fixed-layout writers over the output-stream model (C01 C03 C12 C13 C14 C17). */
#include "vf_harness.h"
VF_GHOSTS

#define B(o) ((unsigned)f->buf[(o)])
#define W(o) (B(o) | (B((o) + 1) << 8))
#define D(o) (W(o) | (W((o) + 2) << 16))
#define LO16(x) ((unsigned)((x) & 0xFFFF))

#define VF_OSTREAM_OK(f) (__CPROVER_rw_ok(f, sizeof(*(f))) && (f)->is_open && (f)->writable && !(f)->fail && !(f)->eof && \
                          (f)->pos >= 0 && __CPROVER_rw_ok((f)->buf, (f)->cap))

/* ---------------------------------------------------------------- Header::write : 512 bytes, appendix A.1 */
#define VF_HEADER_OK(h) (__CPROVER_r_ok(h, sizeof(*(h))) &&                                                           \
   (h)->_eventsTime.size == 18 && __CPROVER_r_ok((h)->_eventsTime.data, 18 * sizeof(float)) &&                         \
   (h)->_eventsDisplay.size == 9 && __CPROVER_r_ok((h)->_eventsDisplay.data, 9 * sizeof(size_t)) &&                   \
   (h)->_eventsLabel.size == 18 && __CPROVER_r_ok((h)->_eventsLabel.data, 18 * sizeof(vf_string)) &&                  \
   (vf_gk < 18 ==> VF_STR_OK((h)->_eventsLabel.data[vf_gk])))

void contract_Header__write(const struct Header *self, vf_stream *f)
__CPROVER_requires(vf_exc == 0 && VF_HEADER_OK(self) && VF_OSTREAM_OK(f) && f->pos == 0 && f->cap == 512 && !vf_fault_enabled)
__CPROVER_assigns(f->pos, f->len, f->fail, __CPROVER_object_whole(f->buf))
/*@ C03 C14 : Header_write.length-512 */ __CPROVER_ensures(!f->fail && f->pos == 512 && f->len == 512)
/*@ C03 : Header_write.parameter-block-address */ __CPROVER_ensures(B(0) == 2)
/*@ C03 C02 : Header_write.magic */ __CPROVER_ensures(B(1) == 0x50)
/*@ C03 C12 C14 : Header_write.point-count-word */ __CPROVER_ensures(W(2) == LO16(self->_nb3dPoints))
/*@ C03 C12 C14 : Header_write.analog-samples-word */ __CPROVER_ensures(W(4) == LO16(self->_nbAnalogsMeasurement))
/*@ C03 C12 C14 : Header_write.first-frame-1-based */ __CPROVER_ensures(W(6) == LO16(self->_firstFrame + 1))
/*@ C03 C12 C14 : Header_write.last-frame-1-based */ __CPROVER_ensures(W(8) == LO16(self->_lastFrame + 1))
/*@ C03 C04 C14 : Header_write.interpolation-gap */ __CPROVER_ensures(W(10) == LO16(self->_nbMaxInterpGap))
/*@ C14 : Header_write.scale-bytes-from-member */ __CPROVER_ensures(D(12) == (unsigned)self->_scaleFactor)
/*@ C03 : Header_write.scale-is-negative-float */
__CPROVER_ensures((D(12) & 0x80000000u) != 0 && !(((D(12) >> 23) & 0xFF) == 0xFF && (D(12) & 0x7FFFFF) != 0))
/*@ C14 : Header_write.data-start-from-member */ __CPROVER_ensures(W(16) == LO16(self->_dataStart))
/*@ C03 C05 C14 : Header_write.subframes-word */ __CPROVER_ensures(W(18) == LO16(self->_nbAnalogByFrame))
/*@ C03 C12 C14 : Header_write.rate-float */ __CPROVER_ensures(D(20) == vf_bits_of(self->_frameRate))
/*@ C14 : Header_write.reserved-1 */ __CPROVER_ensures(vf_gj < 135 ==> W(24 + 2 * vf_gj) == LO16((unsigned)self->_emptyBlock1))
/*@ C03 C04 C14 : Header_write.key-label-flag */ __CPROVER_ensures(W(294) == LO16(self->_keyLabelPresent))
/*@ C03 C04 C14 : Header_write.key-label-block */ __CPROVER_ensures(W(296) == LO16(self->_firstBlockKeyLabel))
/*@ C03 C04 C14 : Header_write.four-char-flag */ __CPROVER_ensures(W(298) == LO16(self->_fourCharPresent))
/*@ C03 C04 C14 : Header_write.event-count */ __CPROVER_ensures(W(300) == LO16(self->_nbEvents))
/*@ C14 : Header_write.reserved-2 */ __CPROVER_ensures(W(302) == LO16((unsigned)self->_emptyBlock2))
/*@ C03 C04 C12 C14 : Header_write.event-times */
__CPROVER_ensures(vf_gj < 18 ==> D(304 + 4 * vf_gj) == vf_bits_of(self->_eventsTime.data[vf_gj]))
/*@ C03 C04 C14 : Header_write.event-display */
__CPROVER_ensures(vf_gj < 9 ==> W(376 + 2 * vf_gj) == LO16(self->_eventsDisplay.data[vf_gj]))
/*@ C14 : Header_write.reserved-3 */ __CPROVER_ensures(W(394) == LO16((unsigned)self->_emptyBlock3))
/*@ C03 C04 C14 : Header_write.event-label-text */
__CPROVER_ensures((vf_gk < 18 && vf_gc < 4 && vf_gc < self->_eventsLabel.data[vf_gk].size) ==>
                  B(396 + 4 * vf_gk + vf_gc) == (unsigned)(unsigned char)self->_eventsLabel.data[vf_gk].data[vf_gc])
/*@ C14 C03 : Header_write.event-label-padding-defined */
__CPROVER_ensures((vf_gk < 18 && vf_gc < 4 && vf_gc >= self->_eventsLabel.data[vf_gk].size) ==> B(396 + 4 * vf_gk + vf_gc) == 0)
/*@ C14 : Header_write.reserved-4 */ __CPROVER_ensures(vf_gj < 22 ==> W(468 + 2 * vf_gj) == LO16((unsigned)self->_emptyBlock4))
/*@ C10 C14 : Header_write.nothrow */ __CPROVER_ensures(vf_exc == 0);

/* capacity limits (C17): a count that does not fit its 16-bit word must not be written as its low word */
void contract_L_Header__write(const struct Header *self, vf_stream *f)
__CPROVER_requires(vf_exc == 0 && VF_HEADER_OK(self) && VF_OSTREAM_OK(f) && f->pos == 0 && f->cap == 512 && !vf_fault_enabled)
__CPROVER_assigns(f->pos, f->len, f->fail, vf_exc, __CPROVER_object_whole(f->buf))
/*@ C17 : Header_write.points-over-65535-refused */ __CPROVER_ensures(self->_nb3dPoints > 65535 ==> vf_exc != 0)
/*@ C17 : Header_write.last-frame-over-65535-refused */ __CPROVER_ensures(self->_lastFrame + 1 > 65535 ==> vf_exc != 0)
/*@ C17 : Header_write.samples-over-65535-refused */ __CPROVER_ensures(self->_nbAnalogsMeasurement > 65535 ==> vf_exc != 0)
/*@ C17 : Header_write.at-limit-accepted */
__CPROVER_ensures((self->_nb3dPoints <= 65535 && self->_lastFrame < 65535 && self->_firstFrame < 65535 && self->_nbAnalogsMeasurement <= 65535 &&
                   self->_nbAnalogByFrame <= 65535) ==> (vf_exc == 0 && W(2) == self->_nb3dPoints && W(8) == self->_lastFrame + 1 &&
                                                         W(6) == self->_firstFrame + 1 && W(4) == self->_nbAnalogsMeasurement));

static struct Header *mk_header(void)
{
  struct Header *h = (struct Header *)vf_alloc(sizeof(*h));
  h->_eventsTime.size = 18;
  h->_eventsTime.data = (float *)vf_alloc(18 * sizeof(float));
  h->_eventsDisplay.size = 9;
  h->_eventsDisplay.data = (size_t *)vf_alloc(9 * sizeof(size_t));
  h->_eventsLabel.size = 18;
  h->_eventsLabel.data = (vf_string *)vf_alloc(18 * sizeof(vf_string));
  for (int i = 0; i < 18; ++i) {
    /* event labels: any length 0..8 (the format stores 4 characters) */
    size_t m = nondet_size_t();
    __CPROVER_assume(m <= 8);
    h->_eventsLabel.data[i].size = m;
    h->_eventsLabel.data[i].data = (char *)vf_alloc(m + 1);
    h->_eventsLabel.data[i].data[m] = 0;
  }
  return h;
}

void h_Header_write(void)
{
  struct Header *self = mk_header();
  vf_stream *f = vf_mk_ostream(512);
  vf_fault_enabled = 0;
  Header__write(self, f);
  VF_CANARY();
}

/* ---------------------------------------------------------------- Parameters::write : prologue, records, zero padding to a
 * block boundary, back-patched block count and POINT:DATA_START  (appendix A.2).
 * The group records are abstracted: Group::write is replaced by a contract that lets it write any number of bytes
 * (at least a 5-byte record) after the current position and possibly remember the DATA_START slot inside what it
 * wrote.  The alignment arithmetic is therefore proved for every end position of the records, i.e. every residue
 * of the section length modulo 512, symbolically. */
/* records end within the first 3 blocks after the header: every residue modulo 512 occurs (three times); larger
 * buffers exhaust the solver's memory (132 KB symbolic buffer: out of memory at 12 GB) */
#define VF_PSEC_MAX ((long)(4 * 512))
void contract_abs_Group__write(const struct Group *self, vf_stream *f, int groupIdx, vf_spos *dataStartPosition)
__CPROVER_requires(vf_exc == 0 && __CPROVER_r_ok(self, sizeof(*self)) && VF_OSTREAM_OK(f) && __CPROVER_rw_ok(dataStartPosition, sizeof(*dataStartPosition)) &&
                   f->pos <= VF_PSEC_MAX)
__CPROVER_assigns(f->pos, f->len, *dataStartPosition, __CPROVER_object_whole(f->buf))
__CPROVER_ensures(vf_exc == 0 && !f->fail && !f->eof && f->pos >= __CPROVER_old(f->pos) + 5 && f->pos <= VF_PSEC_MAX + 512 &&
                  f->len == (size_t)f->pos)
__CPROVER_ensures(*dataStartPosition == __CPROVER_old(*dataStartPosition) ||
                  (*dataStartPosition >= __CPROVER_old(f->pos) && *dataStartPosition <= f->pos - 2))
/* the section prologue (before the record) is left alone */
__CPROVER_ensures(f->buf[512] == __CPROVER_old(f->buf[512]) && f->buf[513] == __CPROVER_old(f->buf[513]) &&
                  f->buf[514] == __CPROVER_old(f->buf[514]) && f->buf[515] == __CPROVER_old(f->buf[515]));

long vf_rec_end; /* ghost: where the records ended (the harness fixes it through the abstract group) */

void contract_Parameters__write(const struct Parameters *self, vf_stream *f)
__CPROVER_requires(vf_exc == 0 && __CPROVER_r_ok(self, sizeof(*self)) && self->_groups.size == 1 &&
                   __CPROVER_r_ok(self->_groups.data, sizeof(struct Group)) && VF_OSTREAM_OK(f) && f->pos == 512 && f->len == 512 &&
                   f->cap == (size_t)VF_PSEC_MAX + 1024 && !vf_fault_enabled && self->_parametersStart == 1)
__CPROVER_assigns(f->pos, f->len, f->fail, f->eof, __CPROVER_object_whole(f->buf))
/*@ C03 C14 : Parameters_write.prologue */
__CPROVER_ensures(B(512) == 1 && B(513) == 0x50 && B(515) == 84)
/*@ C03 : Parameters_write.ends-on-block-boundary */ __CPROVER_ensures(!f->fail && f->pos % 512 == 0 && f->len == (size_t)f->pos)
/*@ C03 C01 : Parameters_write.room-for-terminator */
__CPROVER_ensures(f->pos >= 517 + 1) /* that the padding bytes are zero (terminator) is proved in Parameters_write_padding */
/*@ C03 C01 : Parameters_write.block-count-exact */
__CPROVER_ensures(B(514) == (unsigned)(((f->pos - 512) / 512) & 0xFF))
/*@ C10 C14 : Parameters_write.nothrow */ __CPROVER_ensures(vf_exc == 0);

void h_Parameters_write(void)
{
  struct Parameters *self = (struct Parameters *)vf_alloc(sizeof(*self));
  self->_groups.size = 1;
  self->_groups.data = (struct Group *)vf_alloc(sizeof(struct Group));
  vf_stream *f = vf_mk_ostream((size_t)VF_PSEC_MAX + 1024);
  f->pos = 512;
  f->len = 512;
  vf_fault_enabled = 0;
  Parameters__write(self, f);
  VF_CANARY();
}

/* second query: the padding is made of zero bytes and the DATA_START slot holds the 1-based block of the data section */
long vf_dsp_seen;
void contract_abs2_Group__write(const struct Group *self, vf_stream *f, int groupIdx, vf_spos *dataStartPosition)
__CPROVER_requires(vf_exc == 0 && __CPROVER_r_ok(self, sizeof(*self)) && VF_OSTREAM_OK(f) && __CPROVER_rw_ok(dataStartPosition, sizeof(*dataStartPosition)) &&
                   f->pos <= VF_PSEC_MAX)
__CPROVER_assigns(f->pos, f->len, *dataStartPosition, vf_rec_end, vf_dsp_seen, __CPROVER_object_whole(f->buf))
__CPROVER_ensures(vf_exc == 0 && !f->fail && !f->eof && f->pos >= __CPROVER_old(f->pos) + 5 && f->pos <= VF_PSEC_MAX + 512 &&
                  f->len == (size_t)f->pos && vf_rec_end == f->pos && vf_dsp_seen == *dataStartPosition)
__CPROVER_ensures(*dataStartPosition >= __CPROVER_old(f->pos) && *dataStartPosition <= f->pos - 2)
__CPROVER_ensures(f->buf[512] == __CPROVER_old(f->buf[512]) && f->buf[513] == __CPROVER_old(f->buf[513]) &&
                  f->buf[514] == __CPROVER_old(f->buf[514]) && f->buf[515] == __CPROVER_old(f->buf[515]));

void contract_Z_Parameters__write(const struct Parameters *self, vf_stream *f)
__CPROVER_requires(vf_exc == 0 && __CPROVER_r_ok(self, sizeof(*self)) && self->_groups.size == 1 &&
                   __CPROVER_r_ok(self->_groups.data, sizeof(struct Group)) && VF_OSTREAM_OK(f) && f->pos == 512 && f->len == 512 &&
                   f->cap == (size_t)VF_PSEC_MAX + 1024 && !vf_fault_enabled && self->_parametersStart == 1)
__CPROVER_assigns(f->pos, f->len, f->fail, f->eof, vf_rec_end, vf_dsp_seen, __CPROVER_object_whole(f->buf))
/*@ C03 : Parameters_write.data-start-is-1-based-block-of-data */
__CPROVER_ensures(B(vf_dsp_seen) == (unsigned)((f->pos / 512 + 1) & 0xFF))
/*@ C03 C01 C04 C14 : Parameters_write.padding-is-zero */
__CPROVER_ensures((vf_gc >= (size_t)vf_rec_end && vf_gc < (size_t)f->pos) ==> f->buf[vf_gc] == 0)
/*@ C03 C01 C04 : Parameters_write.at-least-one-padding-byte */ __CPROVER_ensures(f->pos > vf_rec_end)
/*@ C03 : Parameters_write.less-than-one-block-of-padding-plus-terminator */ __CPROVER_ensures(f->pos - vf_rec_end <= 512);

void h_Z_Parameters_write(void)
{
  struct Parameters *self = (struct Parameters *)vf_alloc(sizeof(*self));
  self->_groups.size = 1;
  self->_groups.data = (struct Group *)vf_alloc(sizeof(struct Group));
  vf_stream *f = vf_mk_ostream((size_t)VF_PSEC_MAX + 1024);
  f->pos = 512;
  f->len = 512;
  vf_fault_enabled = 0;
  Parameters__write(self, f);
  VF_CANARY();
}

/* ---------------------------------------------------------------- Point::write / Channel::write : raw float bytes (C01 C12 C14) */
#define FL(o) ((unsigned)f->buf[(o)] | ((unsigned)f->buf[(o) + 1] << 8) | ((unsigned)f->buf[(o) + 2] << 16) | ((unsigned)f->buf[(o) + 3] << 24))
#define P0 ((size_t)__CPROVER_old(f->pos))
void contract_Point__write(const struct Point *self, vf_stream *f)
__CPROVER_requires(vf_exc == 0 && __CPROVER_r_ok(self, sizeof(*self)) && self->_data.size == 4 && __CPROVER_r_ok(self->_data.data, 4 * sizeof(float)) &&
                   VF_OSTREAM_OK(f) && f->cap == 64 && f->pos <= 48 && f->len == (size_t)f->pos && !vf_fault_enabled)
__CPROVER_assigns(f->pos, f->len, f->fail, __CPROVER_object_whole(f->buf))
/*@ C01 C03 C14 : Point_write.sixteen-bytes */ __CPROVER_ensures(!f->fail && (size_t)f->pos == P0 + 16 && f->len == (size_t)f->pos)
/*@ C01 C12 C14 : Point_write.x-bits */ __CPROVER_ensures(FL(P0) == vf_bits_of(self->_data.data[0]))
/*@ C01 C12 C14 : Point_write.y-bits */ __CPROVER_ensures(FL(P0 + 4) == vf_bits_of(self->_data.data[1]))
/*@ C01 C12 C14 : Point_write.z-bits */ __CPROVER_ensures(FL(P0 + 8) == vf_bits_of(self->_data.data[2]))
/*@ C01 C12 C14 : Point_write.residual-bits */ __CPROVER_ensures(FL(P0 + 12) == vf_bits_of(self->_data.data[3]))
/*@ C10 C14 : Point_write.nothrow */ __CPROVER_ensures(vf_exc == 0);

void h_Point_write(void)
{
  struct Point *self = (struct Point *)vf_alloc(sizeof(*self));
  self->_data.size = 4;
  self->_data.data = (float *)vf_alloc(4 * sizeof(float));
  vf_stream *f = vf_mk_ostream(64);
  long p0;
  __CPROVER_assume(p0 >= 0 && p0 <= 48);
  f->pos = p0;
  f->len = (size_t)p0;
  vf_fault_enabled = 0;
  Point__write(self, f);
  VF_CANARY();
}

void contract_Channel__write(const struct Channel *self, vf_stream *f)
__CPROVER_requires(vf_exc == 0 && __CPROVER_r_ok(self, sizeof(*self)) && VF_OSTREAM_OK(f) && f->cap == 64 && f->pos <= 60 &&
                   f->len == (size_t)f->pos && !vf_fault_enabled)
__CPROVER_assigns(f->pos, f->len, f->fail, __CPROVER_object_whole(f->buf))
/*@ C01 C03 C14 : Channel_write.four-bytes */ __CPROVER_ensures(!f->fail && (size_t)f->pos == P0 + 4 && f->len == (size_t)f->pos)
/*@ C01 C12 C14 : Channel_write.value-bits */ __CPROVER_ensures(FL(P0) == vf_bits_of(self->_data))
/*@ C10 C14 : Channel_write.nothrow */ __CPROVER_ensures(vf_exc == 0);

void h_Channel_write(void)
{
  struct Channel *self = (struct Channel *)vf_alloc(sizeof(*self));
  vf_stream *f = vf_mk_ostream(64);
  long p0;
  __CPROVER_assume(p0 >= 0 && p0 <= 60);
  f->pos = p0;
  f->len = (size_t)p0;
  vf_fault_enabled = 0;
  Channel__write(self, f);
  VF_CANARY();
}
