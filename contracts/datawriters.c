/* Data-section writers with loop contracts (C01 C03 C14): every container size up to the capacity of the unit's buffer.
 *   Point_write_at     Point::write at ANY position of a buffer of VF_DW_CAP bytes: 16 bytes = the object representation of
 *                      x y z residual, every earlier byte untouched  (the cap-64 unit Point_write states the float bits)
 *   Points_write       Points::write = point after point, by loop contract, against the contract of Point_write_at
 * One ghost offset vf_gb describes the whole output buffer: inside the section it is byte (vf_gb-start)%16 of point
 * (vf_gb-start)/16, outside it is unchanged. */
#include "vf_harness.h"
VF_GHOSTS
#ifndef VF_DW_CAP
#define VF_DW_CAP 4096
#endif
#define VF_OSTREAM_OK(f) (__CPROVER_rw_ok(f, sizeof(*(f))) && (f)->is_open && (f)->writable && !(f)->fail && !(f)->eof && \
                          (f)->pos >= 0 && __CPROVER_rw_ok((f)->buf, (f)->cap))
#define POINT_OK(p) (__CPROVER_r_ok(p, sizeof(*(p))) && (p)->_data.size == 4 && __CPROVER_r_ok((p)->_data.data, 4 * sizeof(float)))
#define RAW(p) ((const unsigned char *)(p)->_data.data)
#define P0 ((size_t)__CPROVER_old(f->pos))

/* one ghost offset vf_gb describes the whole buffer: inside the 16 written bytes it is the byte of the point, elsewhere unchanged */
void contract_at_Point__write(const struct Point *self, vf_stream *f)
__CPROVER_requires(vf_exc == 0 && POINT_OK(self) && VF_OSTREAM_OK(f) && f->cap == VF_DW_CAP && (size_t)f->pos + 16 <= VF_DW_CAP &&
                   f->len == (size_t)f->pos && !vf_fault_enabled && vf_gb < VF_DW_CAP)
__CPROVER_assigns(f->pos, f->len, __CPROVER_object_whole(f->buf))
/*@ C01 C03 C14 : Point_write_at.sixteen-bytes */
__CPROVER_ensures(vf_exc == 0 && !f->fail && !f->eof && (size_t)f->pos == P0 + 16 && f->len == (size_t)f->pos)
/*@ C01 C12 C14 : Point_write_at.bytes-are-the-four-floats */
__CPROVER_ensures((vf_gb >= P0 && vf_gb < P0 + 16) ==> f->buf[vf_gb] == RAW(self)[vf_gb - P0])
/*@ C14 : Point_write_at.other-bytes-untouched */
__CPROVER_ensures(!(vf_gb >= P0 && vf_gb < P0 + 16) ==> f->buf[vf_gb] == __CPROVER_old(f->buf[vf_gb]));

static vf_stream *mk_stream_at(size_t room)
{
  vf_stream *f = vf_mk_ostream(VF_DW_CAP);
  size_t p0 = nondet_size_t();
  __CPROVER_assume(p0 + room <= VF_DW_CAP);
  f->pos = (long)p0;
  f->len = p0;
  return f;
}

void h_Point_write_at(void)
{
  struct Point *self = (struct Point *)vf_alloc(sizeof(*self));
  self->_data.size = 4;
  self->_data.data = (float *)vf_alloc(4 * sizeof(float));
  vf_stream *f = mk_stream_at(16);
  vf_fault_enabled = 0;
  __CPROVER_assume(vf_gb < VF_DW_CAP);
  Point__write(self, f);
  VF_CANARY();
}

#define NPTS (self->_points.size)
#define IN_SECTION (vf_gb >= P0 && vf_gb < P0 + 16 * NPTS)
void contract_Points__write(const struct Points *self, vf_stream *f)
__CPROVER_requires(vf_exc == 0 && __CPROVER_r_ok(self, sizeof(*self)) && NPTS <= VF_DW_CAP / 16 &&
                   __CPROVER_r_ok(self->_points.data, (NPTS ? NPTS : 1) * sizeof(struct Point)) &&
                   (vf_gj < NPTS ==> POINT_OK(&self->_points.data[vf_gj])) &&
                   VF_OSTREAM_OK(f) && f->cap == VF_DW_CAP && (size_t)f->pos + 16 * NPTS <= VF_DW_CAP && f->len == (size_t)f->pos &&
                   !vf_fault_enabled && vf_gb < VF_DW_CAP)
__CPROVER_assigns(f->pos, f->len, __CPROVER_object_whole(f->buf))
/*@ C01 C03 C14 : Points_write.sixteen-bytes-per-point */
__CPROVER_ensures(vf_exc == 0 && !f->fail && (size_t)f->pos == P0 + 16 * NPTS && f->len == (size_t)f->pos)
/*@ C01 C03 C12 C14 : Points_write.byte-b-of-the-section-is-byte-b%16-of-point-b/16 */
__CPROVER_ensures(IN_SECTION ==> f->buf[vf_gb] == RAW(&self->_points.data[(vf_gb - P0) / 16])[(vf_gb - P0) % 16])
/*@ C14 : Points_write.other-bytes-untouched */
__CPROVER_ensures(!IN_SECTION ==> f->buf[vf_gb] == __CPROVER_old(f->buf[vf_gb]));

void h_Points_write(void)
{
  struct Points *self = (struct Points *)vf_alloc(sizeof(*self));
  size_t n = nondet_size_t();
  __CPROVER_assume(n <= VF_DW_CAP / 16);
  self->_points.size = n;
  /* every point is valid (the requires clause states it at the ghost index, which is how callers see it); the storage is
   * allocated at full capacity so that the builder loop stores at constant indices */
  self->_points.data = (struct Point *)vf_alloc((VF_DW_CAP / 16) * sizeof(struct Point));
  float *pool = (float *)vf_alloc((VF_DW_CAP / 16) * 4 * sizeof(float));
  for (size_t i = 0; i < VF_DW_CAP / 16; ++i) {
    self->_points.data[i]._data.size = 4;
    self->_points.data[i]._data.data = pool + 4 * i;
  }
  vf_stream *f = mk_stream_at(16 * n);
  vf_fault_enabled = 0;
  __CPROVER_assume(vf_gb < VF_DW_CAP);
  Points__write(self, f);
  VF_CANARY();
}

/* ---------------------------------------------------------------- Channel::write at any position, SubFrame::write by loop contract */
#define CRAW(c) ((const unsigned char *)&(c)->_data)
void contract_at_Channel__write(const struct Channel *self, vf_stream *f)
__CPROVER_requires(vf_exc == 0 && __CPROVER_r_ok(self, sizeof(*self)) && VF_OSTREAM_OK(f) && f->cap == VF_DW_CAP && (size_t)f->pos + 4 <= VF_DW_CAP &&
                   f->len == (size_t)f->pos && !vf_fault_enabled && vf_gb < VF_DW_CAP)
__CPROVER_assigns(f->pos, f->len, __CPROVER_object_whole(f->buf))
/*@ C01 C03 C14 : Channel_write_at.four-bytes */
__CPROVER_ensures(vf_exc == 0 && !f->fail && !f->eof && (size_t)f->pos == P0 + 4 && f->len == (size_t)f->pos)
/*@ C01 C12 C14 : Channel_write_at.bytes-are-the-float */
__CPROVER_ensures((vf_gb >= P0 && vf_gb < P0 + 4) ==> f->buf[vf_gb] == CRAW(self)[vf_gb - P0])
/*@ C14 : Channel_write_at.other-bytes-untouched */
__CPROVER_ensures(!(vf_gb >= P0 && vf_gb < P0 + 4) ==> f->buf[vf_gb] == __CPROVER_old(f->buf[vf_gb]));

void h_Channel_write_at(void)
{
  struct Channel *self = (struct Channel *)vf_alloc(sizeof(*self));
  vf_stream *f = mk_stream_at(4);
  vf_fault_enabled = 0;
  __CPROVER_assume(vf_gb < VF_DW_CAP);
  Channel__write(self, f);
  VF_CANARY();
}

#define NCH (self->_channels.size)
#define IN_SUB (vf_gb >= P0 && vf_gb < P0 + 4 * NCH)
void contract_SubFrame__write(const struct SubFrame *self, vf_stream *f)
__CPROVER_requires(vf_exc == 0 && __CPROVER_r_ok(self, sizeof(*self)) && NCH <= VF_DW_CAP / 4 &&
                   __CPROVER_r_ok(self->_channels.data, (NCH ? NCH : 1) * sizeof(struct Channel)) &&
                   VF_OSTREAM_OK(f) && f->cap == VF_DW_CAP && (size_t)f->pos + 4 * NCH <= VF_DW_CAP && f->len == (size_t)f->pos &&
                   !vf_fault_enabled && vf_gb < VF_DW_CAP)
__CPROVER_assigns(f->pos, f->len, __CPROVER_object_whole(f->buf))
/*@ C01 C03 C14 : SubFrame_write.four-bytes-per-channel */
__CPROVER_ensures(vf_exc == 0 && !f->fail && (size_t)f->pos == P0 + 4 * NCH && f->len == (size_t)f->pos)
/*@ C01 C03 C12 C14 : SubFrame_write.byte-b-of-the-section-is-byte-b%4-of-channel-b/4 */
__CPROVER_ensures(IN_SUB ==> f->buf[vf_gb] == CRAW(&self->_channels.data[(vf_gb - P0) / 4])[(vf_gb - P0) % 4])
/*@ C14 : SubFrame_write.other-bytes-untouched */
__CPROVER_ensures(!IN_SUB ==> f->buf[vf_gb] == __CPROVER_old(f->buf[vf_gb]));

void h_SubFrame_write(void)
{
  struct SubFrame *self = (struct SubFrame *)vf_alloc(sizeof(*self));
  size_t n = nondet_size_t();
  __CPROVER_assume(n <= VF_DW_CAP / 4);
  self->_channels.size = n;
  self->_channels.data = (struct Channel *)vf_alloc((VF_DW_CAP / 4) * sizeof(struct Channel));
  vf_stream *f = mk_stream_at(4 * n);
  vf_fault_enabled = 0;
  __CPROVER_assume(vf_gb < VF_DW_CAP);
  SubFrame__write(self, f);
  VF_CANARY();
}
