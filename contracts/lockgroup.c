/* c3d::lockGroup / unlockGroup(name): only the lock flag of the named group changes; an unknown group is refused with
 * nothing changed (C09 C10).  The by-name accessor is replaced by a contract over the ghost fact "a group of that name exists
 * at vf_lg_group" (first match: unit Parameters_groupIdx); Group::lock / unlock run as they are (unit Group_lock / _unlock). */
#include "vf_harness.h"
VF_GHOSTS
_Bool vf_lg_present;
struct Group *vf_lg_group;

struct Group *contract_lg_Parameters__group_nonConst__str(struct Parameters *self, const vf_string *groupName)
__CPROVER_requires(vf_exc == 0 && __CPROVER_r_ok(self, sizeof(*self)))
__CPROVER_assigns(vf_exc)
__CPROVER_ensures(vf_lg_present ? (vf_exc == 0 && __CPROVER_pointer_equals(__CPROVER_return_value, vf_lg_group)) : vf_exc == VF_EXC_invalid_argument);

#define G vf_lg_group
#define LOCK_CONTRACT(NAME, VAL)                                                                                        \
  void contract_##NAME(struct c3d *self, const vf_string *groupName)                                                    \
  __CPROVER_requires(vf_exc == 0 && __CPROVER_rw_ok(self, sizeof(*self)) && __CPROVER_rw_ok(self->_parameters, sizeof(struct Parameters)) && \
                     __CPROVER_rw_ok(G, sizeof(struct Group)))                                                          \
  __CPROVER_assigns(vf_exc, G->_isLocked)                                                                               \
  __CPROVER_ensures(vf_lg_present ==> (vf_exc == 0 && G->_isLocked == (VAL)))                                            \
  __CPROVER_ensures(!vf_lg_present ==> (vf_exc == VF_EXC_invalid_argument && G->_isLocked == __CPROVER_old(G->_isLocked)));

LOCK_CONTRACT(c3d__lockGroup, 1)   /*@ C09 C10 : c3d_lockGroup */
LOCK_CONTRACT(c3d__unlockGroup, 0) /*@ C09 C10 : c3d_unlockGroup */

static struct c3d *mk(void)
{
  struct c3d *self = (struct c3d *)vf_alloc(sizeof(*self));
  self->_parameters = (struct Parameters *)vf_alloc(sizeof(struct Parameters));
  vf_lg_group = (struct Group *)vf_alloc(sizeof(struct Group));
  return self;
}
void h_c3d_lockGroup(void)
{
  struct c3d *self = mk();
  vf_string *name = (vf_string *)vf_alloc(sizeof(*name));
  c3d__lockGroup(self, name);
  VF_CANARY();
}
void h_c3d_unlockGroup(void)
{
  struct c3d *self = mk();
  vf_string *name = (vf_string *)vf_alloc(sizeof(*name));
  c3d__unlockGroup(self, name);
  VF_CANARY();
}
