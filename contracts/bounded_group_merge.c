/* Bounded stand-in (level B, never counted as proved) for Parameters::group(const Group&): append a new group, or merge the
 * parameters of g into the group of the same name (C09 "group merge on duplicate group insertion").
 * Plain CBMC with unwinding; vector<Group>::push_back and Group::parameter(p) are recording stubs (their own units:
 * model contract of push_back; Group_parameter).  Bound: at most 3 groups, 2 parameters in g, names of at most 1 character. */
#include "vf_harness.h"
VF_GHOSTS
#define NG 3
#define NP 2
size_t vf_pushed;
const struct Group *vf_pushed_arg;
size_t vf_merged;
const struct Group *vf_merge_to[NP + 1];
const struct Parameter *vf_merge_arg[NP + 1];
_Bool vf_merge_refuses; /* Group::parameter(p) may refuse an untyped parameter */
void stubg_push_back(vf_vec_Group *v, const struct Group *g)
{
  ++vf_pushed;
  vf_pushed_arg = g;
}
void stubg_Group_parameter(struct Group *self, const struct Parameter *p)
{
  if (p->_data_type == 10000 /* NONE */) { vf_exc = VF_EXC_runtime_error; return; }
  if (vf_merged < NP) { vf_merge_to[vf_merged] = self; vf_merge_arg[vf_merged] = p; }
  ++vf_merged;
}
static void mk_name1(vf_string *s)
{
  size_t m = nondet_size_t();
  __CPROVER_assume(m <= 1);
  s->size = m;
  s->data = (char *)vf_alloc(2);
  s->data[m] = 0;
}
static _Bool same1(const vf_string *a, const vf_string *b) { return a->size == b->size && (a->size == 0 || a->data[0] == b->data[0]); }

void h_B_Parameters_group_merge(void)
{
  struct Parameters *self = (struct Parameters *)vf_alloc(sizeof(*self));
  size_t n = nondet_size_t(), m = nondet_size_t();
  __CPROVER_assume(n <= NG && m <= NP);
  self->_groups.size = n;
  self->_groups.data = (struct Group *)vf_alloc(NG * sizeof(struct Group));
  for (size_t i = 0; i < NG; ++i)
    if (i < n) mk_name1(&self->_groups.data[i]._name);
  struct Group *g = (struct Group *)vf_alloc(sizeof(*g));
  mk_name1(&g->_name);
  g->_parameters.size = m;
  g->_parameters.data = (struct Parameter *)vf_alloc(NP * sizeof(struct Parameter));
  /* VALID_C3D: group names are unique */
  for (size_t i = 0; i < NG; ++i)
    for (size_t j = 0; j < NG; ++j)
      if (i < j && j < n) __CPROVER_assume(!same1(&self->_groups.data[i]._name, &self->_groups.data[j]._name));
  size_t at = (size_t)-1;
  for (size_t i = 0; i < NG; ++i)
    if (i < n && same1(&self->_groups.data[i]._name, &g->_name)) at = i;
  _Bool untyped_before[NP + 1] = {0};   /* parameter i of g is the first untyped one */
  size_t first_untyped = m;
  for (size_t i = NP; i-- > 0;)
    if (i < m && g->_parameters.data[i]._data_type == 10000) first_untyped = i;
  vf_pushed = 0; vf_merged = 0; vf_exc = 0;
  Parameters__group__Group(self, g);
  /*@ C09 : Parameters_group.absent-group-is-appended */
  __CPROVER_assert(at != (size_t)-1 || (vf_exc == 0 && vf_pushed == 1 && vf_pushed_arg == g && vf_merged == 0), "a group of a new name is appended, nothing else happens");
  /*@ C09 : Parameters_group.present-group-is-not-duplicated */
  __CPROVER_assert(at == (size_t)-1 || vf_pushed == 0, "a group of an existing name is not appended again");
  /*@ C09 : Parameters_group.parameters-merged-into-the-same-named-group-in-order */
  __CPROVER_assert(at == (size_t)-1 || (vf_merged == first_untyped && (first_untyped == m ? vf_exc == 0 : vf_exc == VF_EXC_runtime_error)),
                   "every parameter of g up to the first untyped one is handed to Group::parameter");
  for (size_t i = 0; i < NP; ++i)
    if (at != (size_t)-1 && i < vf_merged) {
      /*@ C09 : Parameters_group.merge-targets-only-that-group */
      __CPROVER_assert(vf_merge_to[i] == &self->_groups.data[at] && vf_merge_arg[i] == &g->_parameters.data[i], "merge i: parameter i of g into the group of the same name; no other group is touched");
    }
  /*@ C09 C13 : Parameters_group.group-list-itself-untouched-by-a-merge */
  __CPROVER_assert(self->_groups.size == n, "the list itself changes only through push_back");
  VF_CANARY();
}
