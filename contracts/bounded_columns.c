/* Bounded stand-ins (level B, never counted as proved) for the column adders c3d::point(frames) / c3d::analog(frames):
 * three nested loops over (new column, existing label, frame[, sub-frame]) with five callees each - plain CBMC with
 * unwinding, callees replaced by stubs = their contracts in executable form, the harness asserts the postconditions.
 * Bound: at most VF_CB frames, new columns, existing labels and sub-frames (default 2), names of at most one character.
 *
 *   by-name accessors                 -> ghost directory (VALID_C3D)
 *   vector<string> copy               -> a view of the parameter's strings (only read)
 *   Points::point(p) / SubFrame::channel(c) (append form) -> recording stub: which container, which argument, in order
 *                                        (their own units: Points_point_append / _alias)
 *   updateParameters()                -> recording stub (called once, after the data edit, without pending names)   */
#include "vf_harness.h"
VF_GHOSTS
#include "dir_contracts.h"
#ifndef VF_CB
#define VF_CB 2
#endif

struct Parameter *vf_dir_a_labels;
const struct Group *stubc_group(const struct Parameters *self, const vf_string *name)
{
  __CPROVER_assert(IS_POINT(name) || IS_ANALOG(name), "the column adders ask for the groups POINT / ANALOG only");
  return IS_POINT(name) ? vf_dir_point : vf_dir_analog;
}
const struct Parameter *stubc_parameter(const struct Group *self, vf_string *name)
{
  __CPROVER_assert(IS_LABELS(name), "the column adders ask for LABELS only");
  return self == vf_dir_point ? vf_dir_p_labels : vf_dir_a_labels;
}
void stubc_vec_string_copy(vf_vec_string *v, const vf_vec_string *o)
{
  v->size = o->size;
  v->data = o->data;
}

/* ---- recording of the data edit */
size_t vf_mut;                              /* appends so far */
const void *vf_app_to[VF_CB * VF_CB * VF_CB + 1];   /* k-th append: container ... */
const void *vf_app_arg[VF_CB * VF_CB * VF_CB + 1];  /* ... and argument */
int vf_upd;                                 /* updateParameters calls */
size_t vf_mut_at_upd;
void stubc_Points_append(struct Points *self, const struct Point *p, size_t idx)
{
  __CPROVER_assert(idx == (size_t)-1, "the column adder appends");
  __CPROVER_assert(vf_upd == 0, "data edits precede the parameter update");
  if (vf_mut < VF_CB * VF_CB * VF_CB) {
    vf_app_to[vf_mut] = self;
    vf_app_arg[vf_mut] = p;
  }
  ++vf_mut;
}
void stubc_SubFrame_append(struct SubFrame *self, const struct Channel *c, size_t idx)
{
  __CPROVER_assert(idx == (size_t)-1, "the column adder appends");
  __CPROVER_assert(vf_upd == 0, "data edits precede the parameter update");
  if (vf_mut < VF_CB * VF_CB * VF_CB) {
    vf_app_to[vf_mut] = self;
    vf_app_arg[vf_mut] = c;
  }
  ++vf_mut;
}
void stubc_updateParameters(struct c3d *self, const vf_vec_string *newPoints, const vf_vec_string *newAnalogs)
{
  __CPROVER_assert(newPoints->size == 0 && newAnalogs->size == 0, "no pending names: the parameters are regenerated from the data");
  ++vf_upd;
  vf_mut_at_upd = vf_mut;
}

static void mk_name1(vf_string *s)
{
  size_t m = nondet_size_t();
  __CPROVER_assume(m <= 1);
  s->size = m;
  s->data = (char *)vf_alloc(2);
  s->data[m] = 0;
}
static struct Parameter *mk_labels(size_t *n)
{
  struct Parameter *p = (struct Parameter *)vf_alloc(sizeof(*p));
  p->_data_type = -1; /* CHAR */
  size_t l = nondet_size_t();
  __CPROVER_assume(l <= VF_CB);
  p->_param_data_string.size = l;
  p->_param_data_string.data = (vf_string *)vf_alloc(VF_CB * sizeof(vf_string));
  for (size_t i = 0; i < VF_CB; ++i)
    if (i < l) mk_name1(&p->_param_data_string.data[i]);
  *n = l;
  return p;
}
static _Bool same1(const vf_string *a, const vf_string *b) { return a->size == b->size && (a->size == 0 || a->data[0] == b->data[0]); }

#ifdef VF_COLUMN_POINT
/* ------------------------------------------------------------------ c3d::point(frames) */
void h_B_c3d_point_frames(void)
{
  struct c3d *self = (struct c3d *)vf_alloc(sizeof(*self));
  self->_parameters = (struct Parameters *)vf_alloc(sizeof(struct Parameters));
  self->_data = (struct Data *)vf_alloc(sizeof(struct Data));
  size_t F = nondet_size_t(), G = nondet_size_t(), L;
  __CPROVER_assume(F <= VF_CB && G <= VF_CB);
  self->_data->_frames.size = F;
  self->_data->_frames.data = (struct Frame *)vf_alloc(VF_CB * sizeof(struct Frame));
  for (size_t f = 0; f < VF_CB; ++f)
    if (f < F) self->_data->_frames.data[f]._points = (struct Points *)vf_alloc(sizeof(struct Points));
  vf_dir_point = (struct Group *)vf_alloc(sizeof(struct Group));
  vf_dir_analog = (struct Group *)vf_alloc(sizeof(struct Group));
  vf_dir_p_labels = mk_labels(&L);
  /* the argument: G frames, frame g with n[g] points */
  vf_vec_Frame *frames = (vf_vec_Frame *)vf_alloc(sizeof(*frames));
  frames->size = G;
  frames->data = (struct Frame *)vf_alloc(VF_CB * sizeof(struct Frame));
  size_t n[VF_CB] = {0};
  for (size_t g = 0; g < VF_CB; ++g)
    if (g < G) {
      struct Points *P = (struct Points *)vf_alloc(sizeof(*P));
      n[g] = nondet_size_t();
      __CPROVER_assume(n[g] <= VF_CB);
      P->_points.size = n[g];
      P->_points.data = (struct Point *)vf_alloc(VF_CB * sizeof(struct Point));
      for (size_t k = 0; k < VF_CB; ++k)
        if (k < n[g]) mk_name1(&P->_points.data[k]._name);
      frames->data[g]._points = P;
    }
  vf_mut = 0; vf_upd = 0; vf_exc = 0;
  /* the property's predicates over the pre-state */
  _Bool bad_count = (G == 0 || G != F);
  _Bool empty = !bad_count && n[0] == 0;
  _Bool dup = 0, ragged = 0;
  if (!bad_count && !empty) {
    for (size_t k = 0; k < VF_CB; ++k)
      for (size_t i = 0; i < VF_CB; ++i)
        if (k < n[0] && i < L && same1(&frames->data[0]._points->_points.data[k]._name, &vf_dir_p_labels->_param_data_string.data[i])) dup = 1;
    for (size_t g = 0; g < VF_CB; ++g)
      if (g < G && n[g] < n[0]) ragged = 1;
  }
  c3d__point__vFrame(self, frames);
  /*@ C07 C10 : point_frames.wrong-frame-count-refused */
  __CPROVER_assert(!bad_count || vf_exc == VF_EXC_invalid_argument, "frame count mismatch refused");
  /*@ C07 C10 : point_frames.no-points-refused */
  __CPROVER_assert(!empty || vf_exc == VF_EXC_invalid_argument, "empty column set refused");
  /*@ C07 C10 : point_frames.duplicate-label-refused */
  __CPROVER_assert(!(dup && !ragged) || vf_exc == VF_EXC_invalid_argument, "a new point named like an existing label is refused");
  /*@ C07 : point_frames.fresh-names-accepted */
  __CPROVER_assert(bad_count || empty || dup || ragged || vf_exc == 0, "a well-formed column set is accepted");
  /*@ C10 : point_frames.refused-before-any-mutation */
  __CPROVER_assert(vf_exc == 0 || (vf_mut == 0 && vf_upd == 0), "a refused call has not touched the data");
  if (vf_exc == 0) {
    /*@ C06 C05 : point_frames.every-frame-gets-exactly-the-new-columns */
    __CPROVER_assert(vf_mut == F * n[0] && vf_upd == 1 && vf_mut_at_upd == vf_mut, "F x N appends, then one parameter update");
    for (size_t k = 0; k < VF_CB; ++k)
      for (size_t f = 0; f < VF_CB; ++f)
        if (k < n[0] && f < F) {
          /*@ C06 C08 : point_frames.column-k-of-frame-f-goes-to-frame-f */
          __CPROVER_assert(vf_app_to[k * F + f] == self->_data->_frames.data[f]._points &&
                           vf_app_arg[k * F + f] == &frames->data[f]._points->_points.data[k], "append k*F+f: point k of argument frame f into stored frame f");
        }
  }
  VF_CANARY();
}
#endif

#ifdef VF_COLUMN_ANALOG
/* ------------------------------------------------------------------ c3d::analog(frames) */
void h_B_c3d_analog_frames(void)
{
  struct c3d *self = (struct c3d *)vf_alloc(sizeof(*self));
  self->_parameters = (struct Parameters *)vf_alloc(sizeof(struct Parameters));
  self->_header = (struct Header *)vf_alloc(sizeof(struct Header));
  self->_data = (struct Data *)vf_alloc(sizeof(struct Data));
  size_t F = nondet_size_t(), G = nondet_size_t(), S = nondet_size_t(), L;
  __CPROVER_assume(F <= VF_CB && G <= VF_CB && S <= VF_CB);
  self->_header->_nbAnalogByFrame = S;
  self->_data->_frames.size = F;
  self->_data->_frames.data = (struct Frame *)vf_alloc(VF_CB * sizeof(struct Frame));
  for (size_t f = 0; f < VF_CB; ++f)
    if (f < F) {
      struct Analogs *A = (struct Analogs *)vf_alloc(sizeof(*A));
      A->_subframe.size = S; /* C05: every stored frame carries the header's sub-frame count */
      A->_subframe.data = (struct SubFrame *)vf_alloc(VF_CB * sizeof(struct SubFrame));
      self->_data->_frames.data[f]._analogs = A;
    }
  vf_dir_point = (struct Group *)vf_alloc(sizeof(struct Group));
  vf_dir_analog = (struct Group *)vf_alloc(sizeof(struct Group));
  vf_dir_a_labels = mk_labels(&L);
  /* the argument: G frames, frame g with s[g] sub-frames of c[g] channels each */
  vf_vec_Frame *frames = (vf_vec_Frame *)vf_alloc(sizeof(*frames));
  frames->size = G;
  frames->data = (struct Frame *)vf_alloc(VF_CB * sizeof(struct Frame));
  size_t s[VF_CB] = {0}, c[VF_CB] = {0};
  for (size_t g = 0; g < VF_CB; ++g)
    if (g < G) {
      struct Analogs *A = (struct Analogs *)vf_alloc(sizeof(*A));
      s[g] = nondet_size_t();
      c[g] = nondet_size_t();
      __CPROVER_assume(s[g] <= VF_CB && c[g] <= VF_CB);
      A->_subframe.size = s[g];
      A->_subframe.data = (struct SubFrame *)vf_alloc(VF_CB * sizeof(struct SubFrame));
      for (size_t j = 0; j < VF_CB; ++j)
        if (j < s[g]) {
          A->_subframe.data[j]._channels.size = c[g];
          A->_subframe.data[j]._channels.data = (struct Channel *)vf_alloc(VF_CB * sizeof(struct Channel));
          for (size_t k = 0; k < VF_CB; ++k)
            if (k < c[g]) mk_name1(&A->_subframe.data[j]._channels.data[k]._name);
        }
      frames->data[g]._analogs = A;
    }
  vf_mut = 0; vf_upd = 0; vf_exc = 0;
  _Bool bad_count = (G == 0 || G != F);
  _Bool bad_sub = !bad_count && s[0] != S;
  _Bool empty = !bad_count && !bad_sub && (S == 0 || c[0] == 0);
  _Bool dup = 0, ragged = 0;
  if (!bad_count && !bad_sub && !empty) {
    const struct Analogs *A0 = frames->data[0]._analogs;
    const struct Channel *ch0 = A0->_subframe.data[0]._channels.data;
    for (size_t k = 0; k < VF_CB; ++k)
      for (size_t i = 0; i < VF_CB; ++i)
        if (k < c[0] && i < L && same1(&ch0[k]._name, &vf_dir_a_labels->_param_data_string.data[i])) dup = 1;
    for (size_t g = 0; g < VF_CB; ++g)
      if (g < G && (s[g] < S || c[g] < c[0])) ragged = 1;
  }
  c3d__analog__vFrame(self, frames);
  /*@ C07 C10 C13 : analog_frames.wrong-frame-count-refused */
  __CPROVER_assert(!bad_count || vf_exc == VF_EXC_invalid_argument, "frame count mismatch (or no frame at all) refused");
  /*@ C07 C10 : analog_frames.wrong-subframe-count-refused */
  __CPROVER_assert(!bad_sub || vf_exc == VF_EXC_invalid_argument, "sub-frame count mismatch refused");
  /*@ C07 C10 : analog_frames.duplicate-label-refused */
  __CPROVER_assert(!(dup && !ragged) || vf_exc == VF_EXC_invalid_argument, "a new channel named like an existing label is refused");
  /*@ C07 : analog_frames.fresh-names-accepted */
  __CPROVER_assert(bad_count || bad_sub || empty || dup || ragged || vf_exc == 0, "a well-formed column set is accepted");
  /*@ C10 : analog_frames.refused-before-any-mutation */
  __CPROVER_assert(vf_exc == 0 || (vf_mut == 0 && vf_upd == 0), "a refused call has not touched the data");
  if (vf_exc == 0) {
    /*@ C06 C05 : analog_frames.every-subframe-gets-exactly-the-new-columns */
    __CPROVER_assert(vf_mut == F * S * c[0] && vf_upd == 1 && vf_mut_at_upd == vf_mut, "F x S x N appends, then one parameter update");
    for (size_t k = 0; k < VF_CB; ++k)
      for (size_t f = 0; f < VF_CB; ++f)
        for (size_t j = 0; j < VF_CB; ++j)
          if (k < c[0] && f < F && j < S) {
            /*@ C06 C08 : analog_frames.column-k-of-subframe-j-of-frame-f-goes-there */
            __CPROVER_assert(vf_app_to[(k * F + f) * S + j] == &self->_data->_frames.data[f]._analogs->_subframe.data[j] &&
                             vf_app_arg[(k * F + f) * S + j] == &frames->data[f]._analogs->_subframe.data[j]._channels.data[k],
                             "append (k*F+f)*S+j: channel k of sub-frame j of argument frame f into the stored sub-frame");
          }
  }
  VF_CANARY();
}
#endif
