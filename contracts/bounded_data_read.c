/* Bounded stand-ins (tier B, never counted as proved) for reader functions that the contract instrumentation cannot
 * handle within the resource limits: plain CBMC with unwinding; callees are replaced by abstract stubs (their
 * contracts in executable form: any result the contract allows), the harness asserts the postconditions. */
#include "vf_harness.h"
VF_GHOSTS
long nondet_long(void);
#ifndef VF_BYTE_BOUND
#define VF_BYTE_BOUND 127 /* signed bytes returned by the readInt stub (a unit may bound them) */
#endif

/* ---------------------------------------------------------------- Data::Data(c3d&): the frame reader, bounded stand-in
 * (at most 2 frames x 2 points x 2 sub-frames x 2 channels; labels 0..2).  The real reader body is executed; its
 * callees are stubs that (a) hand out the floats of the file in order from a ghost sequence and (b) record which
 * value / which name source every stored point and sample received.  Decides: data offset formula, 4 floats per point
 * then sub-frame-major samples, positional label binding with the unlabeled_* fallback, every index inside its vector. */
#define DN 2
float vf_fseq[DN * (4 * DN + DN * DN) + 4];
size_t vf_fnext;
size_t vf_cur_frame, vf_cur_analog_frame;
float vf_obs_pt[DN][DN][4];
_Bool vf_obs_pt_named[DN][DN]; /* 1: name taken from POINT:LABELS[i], 0: generated unlabeled_point_i */
float vf_tmp_sub[DN];
_Bool vf_tmp_sub_named[DN];
float vf_obs_an[DN][DN][DN];
_Bool vf_obs_an_named[DN][DN][DN];
const vf_string *vf_point_labels_base, *vf_analog_labels_base;
_Bool vf_last_name_from_label;
size_t vf_last_label_index;
int vf_expected_seek;
struct Parameter *vf_dlab_point, *vf_dlab_analog;
struct Group *vf_dgrp_point, *vf_dgrp_analog;

int stubd_readInt(struct c3d *self, unsigned int n, int off, const int *pos)
{
  /*@ C02 : B_Data_read.data-offset-from-parameter-block-count */
  __CPROVER_assert(n == 1 && *pos == VF_IOS_beg && off == vf_expected_seek, "data section located from the parameter block count");
  return 0;
}
size_t vf_favail;  /* floats the (possibly truncated) file really holds */
size_t vf_fpast;   /* reads issued after the end of the file was reached */
float nondet_float(void);
float stubd_readFloat(struct c3d *self, int off, const int *pos)
{
  __CPROVER_assert(*pos == VF_IOS_cur && off == 0, "floats are read sequentially");
  __CPROVER_assert(vf_fnext < sizeof(vf_fseq) / sizeof(vf_fseq[0]), "no more floats are read than the header announces");
  if (vf_fnext >= vf_favail) {           /* contract of readFloat at the end of the file: eofbit | failbit, arbitrary value */
    self->vf_base.eof = 1;
    self->vf_base.fail = 1;
    ++vf_fpast;
    ++vf_fnext;
    return nondet_float();
  }
  return vf_fseq[vf_fnext++];
}
const struct Group *stubd_group(const struct Parameters *self, const vf_string *name)
{
  return (name->size == 5) ? vf_dgrp_point : vf_dgrp_analog;
}
const struct Parameter *stubd_parameter(const struct Group *self, vf_string *name)
{
  __CPROVER_assert(name->size == 6, "only LABELS is looked up by the frame reader");
  return self == vf_dgrp_point ? vf_dlab_point : vf_dlab_analog;
}
void stubd_vec_string_assign(vf_vec_string *v, const vf_vec_string *o)
{
  v->data = o->data; /* same strings: what matters here is which element is handed to name() */
  v->size = o->size;
}
void stubd_vec_Frame_resize(vf_vec_Frame *v, size_t n)
{
  v->data = (struct Frame *)malloc((n ? n : 1) * sizeof(struct Frame));
  __CPROVER_assume(v->data != 0);
  v->size = n;
}
void stubd_Frame__ctor(struct Frame *self) { self->_points = 0; self->_analogs = 0; }
void stubd_Points__ctor__sz(struct Points *self, size_t n)
{
  self->_points.data = (struct Point *)malloc((n ? n : 1) * sizeof(struct Point));
  __CPROVER_assume(self->_points.data != 0);
  self->_points.size = n;
}
void stubd_Analogs__ctor__sz(struct Analogs *self, size_t n) { self->_subframe.size = n; self->_subframe.data = 0; }
void stubd_SubFrame__ctor__sz(struct SubFrame *self, size_t n) { self->_channels.size = n; self->_channels.data = 0; }
void stubd_Point__ctor__str(struct Point *self, const vf_string *name)
{
  self->_data.size = 4;
  self->_data.data = (float *)malloc(4 * sizeof(float));
  __CPROVER_assume(self->_data.data != 0);
}
void stubd_Channel__ctor__str(struct Channel *self, const vf_string *name) { (void)self; }
void stubd_name(void *self, const vf_string *name)
{
  /* which string was handed over: an element of the label vector (and which one) or a generated name */
  vf_last_name_from_label = 0;
  for (size_t i = 0; i < DN; ++i) {
    if (name == &vf_point_labels_base[i] || name == &vf_analog_labels_base[i]) {
      vf_last_name_from_label = 1;
      vf_last_label_index = i;
    }
  }
}
void stubd_Point__name__str(struct Point *self, const vf_string *name) { stubd_name(self, name); }
void stubd_Channel__name__str(struct Channel *self, const vf_string *name) { stubd_name(self, name); }
void stubd_sstream_ctor(vf_sstream *s) { (void)s; }
void stubd_sstream_put_lit(vf_sstream *s, const char *l, size_t n) { (void)s; }
void stubd_sstream_put_ulong(vf_sstream *s, size_t v) { (void)s; }
void stubd_sstream_str(vf_string *out, const vf_sstream *s) { out->size = 0; out->data = 0; }
void stubd_Points__point(struct Points *self, const struct Point *p, size_t idx)
{
  /*@ C13 C02 : B_Data_read.point-stored-inside-the-frame */
  __CPROVER_assert(idx < self->_points.size && idx < DN && vf_cur_frame < DN, "point index inside the pre-sized Points of the frame");
  for (int k = 0; k < 4; ++k) vf_obs_pt[vf_cur_frame][idx][k] = p->_data.data[k];
  vf_obs_pt_named[vf_cur_frame][idx] = vf_last_name_from_label && vf_last_label_index == idx;
}
void stubd_Frame__add__Points(struct Frame *self, const struct Points *p) { vf_cur_frame++; }
void stubd_SubFrame__channel(struct SubFrame *self, const struct Channel *c, size_t idx)
{
  /*@ C13 C02 : B_Data_read.channel-stored-inside-the-subframe */
  __CPROVER_assert(idx < self->_channels.size && idx < DN, "channel index inside the pre-sized sub-frame");
  vf_tmp_sub[idx] = c->_data;
  vf_tmp_sub_named[idx] = vf_last_name_from_label && vf_last_label_index == idx;
}
void stubd_Analogs__subframe(struct Analogs *self, const struct SubFrame *s, size_t k)
{
  /*@ C13 C02 : B_Data_read.subframe-stored-inside-the-frame */
  __CPROVER_assert(k < self->_subframe.size && k < DN && vf_cur_analog_frame < DN, "sub-frame index inside the pre-sized Analogs");
  for (int c = 0; c < DN; ++c) { vf_obs_an[vf_cur_analog_frame][k][c] = vf_tmp_sub[c]; vf_obs_an_named[vf_cur_analog_frame][k][c] = vf_tmp_sub_named[c]; }
}
void stubd_Frame__add__Analogs(struct Frame *self, const struct Analogs *a) { vf_cur_analog_frame++; }

void h_B_Data_read(void)
{
  struct c3d *file = (struct c3d *)vf_alloc(sizeof(*file));
  struct Header *h = (struct Header *)vf_alloc(sizeof(*h));
  struct Parameters *P = (struct Parameters *)vf_alloc(sizeof(*P));
  file->_header = h;
  file->_parameters = P;
  /* a header as updateHeader leaves it: consistent counts within the bound */
  size_t nP = nondet_size_t(), nC = nondet_size_t(), nS = nondet_size_t(), nF = nondet_size_t();
  __CPROVER_assume(nP <= DN && nC <= DN && nS <= DN && nF >= 1 && nF <= DN && (nC == 0 || nS >= 1));
  h->_nb3dPoints = nP;
  h->_nbAnalogByFrame = nS;
  h->_nbAnalogsMeasurement = nC * nS;
  __CPROVER_assume(nP > 0 || (nS > 0 && nC > 0)); /* otherwise the header announces no frames */
  __CPROVER_assume(h->_firstFrame <= 1000 && h->_lastFrame == h->_firstFrame + nF - 1);
  __CPROVER_assume(h->_parametersAddress >= 1 && h->_parametersAddress <= 255 && h->_nbOfZerosBeforeHeader <= 100000 && P->_nbParamBlock <= 255);
  vf_expected_seek = (int)(512 * (h->_parametersAddress - 1) + h->_nbOfZerosBeforeHeader + 512 * P->_nbParamBlock - 1);
  vf_dgrp_point = (struct Group *)vf_alloc(sizeof(struct Group));
  vf_dgrp_analog = (struct Group *)vf_alloc(sizeof(struct Group));
  vf_dlab_point = (struct Parameter *)vf_alloc(sizeof(struct Parameter));
  vf_dlab_analog = (struct Parameter *)vf_alloc(sizeof(struct Parameter));
  vf_dlab_point->_data_type = -1;
  vf_dlab_analog->_data_type = -1;
  size_t nLP = nondet_size_t(), nLA = nondet_size_t();
  __CPROVER_assume(nLP <= DN && nLA <= DN); /* fewer, as many, or (relative to the points in use) more labels */
  vf_dlab_point->_param_data_string.size = nLP;
  vf_dlab_point->_param_data_string.data = (vf_string *)vf_alloc(DN * sizeof(vf_string));
  vf_dlab_analog->_param_data_string.size = nLA;
  vf_dlab_analog->_param_data_string.data = (vf_string *)vf_alloc(DN * sizeof(vf_string));
  vf_point_labels_base = vf_dlab_point->_param_data_string.data;
  vf_analog_labels_base = vf_dlab_analog->_param_data_string.data;
  vf_fnext = 0; vf_cur_frame = 0; vf_cur_analog_frame = 0; vf_exc = 0; vf_fpast = 0;
  file->vf_base.eof = 0; file->vf_base.fail = 0; file->vf_base.is_open = 1;
  struct Data *self = (struct Data *)vf_alloc(sizeof(*self));
  size_t per_frame = 4 * nP + nS * nC;
  _Bool complete = vf_favail >= nF * per_frame;    /* the file holds every float the header announces */
  Data__ctor__c3d(self, file);
  if (h->_scaleFactor < 0 && !complete) {
    /*@ C16 : B_Data_read.truncated-data-section-is-refused-early */
    __CPROVER_assert(vf_exc == VF_EXC_ios_failure && vf_fpast <= 4,
                     "a data section shorter than announced is refused, after at most one point's worth of reads past the end of the file");
  }
  else if (h->_scaleFactor < 0) {
    /*@ C02 C16 : B_Data_read.float-format-loads */ __CPROVER_assert(vf_exc == 0, "a float-format data section loads");
    /*@ C02 C03 : B_Data_read.frame-count-and-float-count */
    __CPROVER_assert(self->_frames.size == nF && vf_fnext == nF * per_frame && vf_cur_frame == nF, "frames x (4 x points + channels x sub-frames) floats");
    for (size_t f = 0; f < DN; ++f)
      for (size_t p = 0; p < DN; ++p)
        if (f < nF && p < nP) {
          /*@ C02 C01 : B_Data_read.point-is-four-consecutive-floats */
          __CPROVER_assert(vf_bits_of(vf_obs_pt[f][p][0]) == vf_bits_of(vf_fseq[f * per_frame + 4 * p]) &&
                           vf_bits_of(vf_obs_pt[f][p][1]) == vf_bits_of(vf_fseq[f * per_frame + 4 * p + 1]) &&
                           vf_bits_of(vf_obs_pt[f][p][2]) == vf_bits_of(vf_fseq[f * per_frame + 4 * p + 2]) &&
                           vf_bits_of(vf_obs_pt[f][p][3]) == vf_bits_of(vf_fseq[f * per_frame + 4 * p + 3]), "x, y, z, residual in file order");
          /*@ C02 C13 : B_Data_read.positional-label-binding */
          __CPROVER_assert(vf_obs_pt_named[f][p] == (p < nLP), "point i is named LABELS[i] when that label exists, unlabeled_point_i otherwise");
        }
    for (size_t f = 0; f < DN; ++f)
      for (size_t k = 0; k < DN; ++k)
        for (size_t c = 0; c < DN; ++c)
          if (f < nF && k < nS && c < nC) {
            /*@ C02 C01 : B_Data_read.samples-subframe-major */
            __CPROVER_assert(vf_bits_of(vf_obs_an[f][k][c]) == vf_bits_of(vf_fseq[f * per_frame + 4 * nP + k * nC + c]), "analog sample at (frame, sub-frame, channel)");
            /*@ C02 C13 : B_Data_read.positional-channel-label-binding */
            __CPROVER_assert(vf_obs_an_named[f][k][c] == (c < nLA), "channel i is named ANALOG:LABELS[i] when that label exists");
          }
  } else {
    /*@ C16 C02 : B_Data_read.integer-format-refused */ __CPROVER_assert(vf_exc == VF_EXC_invalid_argument, "integer-format data is refused");
  }
  VF_CANARY();
}
