/* Bounded stand-in (level B, never counted as proved) for Parameter::write on an INT parameter with 0..2 dimensions: the
 * whole record (table A.4), through the recursive writeImbricatedParameter, on the real stream model.
 * The harness asserts the record byte by byte; it is the mirror image of what B_Parameter_read / B_readParam_int decode,
 * so the pair is the per-record round trip of C01/C04.
 * Bound: name <= 2 characters, description <= 2, at most 2 dimensions of at most 2, start offset <= 1. */
#include "vf_harness.h"
VF_GHOSTS
#define CAPW 32
#ifndef VF_ND
#define VF_ND 2
#endif
#define BB(o) ((unsigned)f->buf[(o)])
/* element width on disk = the type code: 2 for INT, 1 for BYTE (a BYTE parameter only comes from a loaded file; its values
 * sit in the same int vector and each is written as its low byte - the byte-typed values of C04) */
#ifndef VF_W
#define VF_W 2
#endif

void h_B_Parameter_write_int(void)
{
  struct Parameter *self = (struct Parameter *)vf_alloc(sizeof(*self));
  size_t L = nondet_size_t(), D = nondet_size_t(), nd = VF_ND; /* constant: the recursion depth is decided during symbolic execution */
  __CPROVER_assume(L >= 1 && L <= 2 && D <= 2);
  self->_name.size = L; self->_name.data = (char *)vf_alloc(3); self->_name.data[L] = 0;
  self->_description.size = D; self->_description.data = (char *)vf_alloc(3); self->_description.data[D] = 0;
  /* no "DATA_START" special case: names of at most 2 characters */
  self->_data_type = VF_W;
  self->_dimension.size = nd;
  self->_dimension.data = (size_t *)vf_alloc(2 * sizeof(size_t));
  __CPROVER_assume(self->_dimension.data[0] <= 2 && (nd < 2 || self->_dimension.data[1] <= 2));
  size_t d0 = self->_dimension.data[0], d1 = nd == 2 ? self->_dimension.data[1] : 1;
  size_t n = d0 * d1;
  self->_param_data_int.size = n;          /* Parameter::set keeps values and shape consistent (unit isDimensionConsistent) */
  self->_param_data_int.data = (int *)vf_alloc(4 * sizeof(int));
  self->_param_data_float.size = 0; self->_param_data_float.data = 0;
  self->_param_data_string.size = 0; self->_param_data_string.data = 0;
  vf_stream *f = vf_mk_ostream(CAPW);
  size_t p0 = nondet_size_t();
  __CPROVER_assume(p0 <= 1);
  f->pos = (long)p0; f->len = p0;
  unsigned char before = f->buf[vf_gb < CAPW ? vf_gb : 0];
  int gid = nondet_int();
  __CPROVER_assume(gid >= 1 && gid <= 127);
  vf_spos *dsp = (vf_spos *)vf_alloc(sizeof(vf_spos));
  vf_spos dsp0 = *dsp;
  vf_fault_enabled = 0; vf_exc = 0;
  Parameter__write(self, f, gid, dsp);
  _Bool scalar = (nd == 1 && d0 == 1);
  size_t ndw = scalar ? 0 : nd;             /* dimension bytes written */
  size_t data_at = p0 + 2 + L + 2 + 1 + 1 + ndw;
  size_t desc_at = data_at + VF_W * n;
  size_t end = desc_at + 1 + D;
  /*@ C03 C14 : Parameter_write.record-length */
  __CPROVER_assert(vf_exc == 0 && !f->fail && (size_t)f->pos == end && f->len == end, "record = 2 + name + 2 + 1 + 1 + dims + data + 1 + description bytes");
  /*@ C03 C17 : Parameter_write.name-length-byte-with-lock-sign */
  __CPROVER_assert(BB(p0) == (unsigned char)(self->_isLocked ? -(int)L : (int)L), "name length, negative when locked");
  /*@ C03 : Parameter_write.group-id-byte */
  __CPROVER_assert(BB(p0 + 1) == (unsigned char)gid, "owning group id as passed by Group::write");
  /*@ C03 C01 : Parameter_write.name-upper-case */
  __CPROVER_assert(vf_gc >= L || BB(p0 + 2 + vf_gc) == (unsigned char)VF_UPPER(self->_name.data[vf_gc]), "name characters, upper-cased");
  /*@ C03 C02 : Parameter_write.offset-to-the-next-record */
  __CPROVER_assert((BB(p0 + 2 + L) | (BB(p0 + 3 + L) << 8)) == end - (p0 + 2 + L), "offset word: distance from the word to the end of the record");
  /*@ C03 C12 : Parameter_write.type-byte */
  __CPROVER_assert(BB(p0 + 4 + L) == VF_W, "element width: 2 = 16-bit integers, 1 = bytes");
  /*@ C03 C01 : Parameter_write.dimension-count-byte */
  __CPROVER_assert(BB(p0 + 5 + L) == ndw, "0 for a scalar, else the number of dimensions");
  /*@ C03 C01 : Parameter_write.dimension-bytes */
  __CPROVER_assert(scalar || vf_gd >= nd || BB(p0 + 6 + L + vf_gd) == self->_dimension.data[vf_gd], "one byte per dimension");
  /*@ C03 C01 C12 C14 : Parameter_write.elements-in-storage-order */
#if VF_W == 2
  __CPROVER_assert(vf_gv >= n || (BB(data_at + 2 * vf_gv) | (BB(data_at + 2 * vf_gv + 1) << 8)) == ((unsigned)self->_param_data_int.data[vf_gv] & 0xFFFF),
                   "element k as a little-endian 16-bit word at data + 2k");
#else
  __CPROVER_assert(vf_gv >= n || BB(data_at + vf_gv) == ((unsigned)self->_param_data_int.data[vf_gv] & 0xFF), "element k as one byte at data + k");
#endif
  /*@ C03 C04 : Parameter_write.description-length-byte */
  __CPROVER_assert(BB(desc_at) == D, "description length");
  /*@ C03 C04 C14 : Parameter_write.description-bytes */
  __CPROVER_assert(vf_gc >= D || BB(desc_at + 1 + vf_gc) == (unsigned char)self->_description.data[vf_gc], "description characters");
  /*@ C14 : Parameter_write.earlier-bytes-untouched */
  __CPROVER_assert(!(vf_gb < p0) || f->buf[vf_gb] == before, "nothing before the record is written");
  /*@ C03 : Parameter_write.data-start-slot-only-for-DATA_START */
  __CPROVER_assert(*dsp == dsp0, "only POINT:DATA_START records its position");
  VF_CANARY();
}

/* ---------------------------------------------------------------- FLOAT parameter with VF_ND dimensions: the same record, elements
 * are the four bytes of each float (C12: every bit pattern; C14: every byte comes from the object). */
void h_B_Parameter_write_float(void)
{
  struct Parameter *self = (struct Parameter *)vf_alloc(sizeof(*self));
  size_t L = nondet_size_t(), D = nondet_size_t(), nd = VF_ND; /* constant: the recursion depth is decided during symbolic execution */
  __CPROVER_assume(L >= 1 && L <= 2 && D <= 2);
  self->_name.size = L; self->_name.data = (char *)vf_alloc(3); self->_name.data[L] = 0;
  self->_description.size = D; self->_description.data = (char *)vf_alloc(3); self->_description.data[D] = 0;
  /* no "DATA_START" special case: names of at most 2 characters */
  self->_data_type = 4;
  self->_dimension.size = nd;
  self->_dimension.data = (size_t *)vf_alloc(2 * sizeof(size_t));
  __CPROVER_assume(self->_dimension.data[0] <= 2 && (nd < 2 || self->_dimension.data[1] <= 2));
  size_t d0 = self->_dimension.data[0], d1 = nd == 2 ? self->_dimension.data[1] : 1;
  size_t n = d0 * d1;
  self->_param_data_float.size = n;        /* Parameter::set keeps values and shape consistent (units Parameter_set_float, isDimensionConsistent) */
  self->_param_data_float.data = (float *)vf_alloc(4 * sizeof(float));
  self->_param_data_int.size = 0; self->_param_data_int.data = 0;
  self->_param_data_string.size = 0; self->_param_data_string.data = 0;
  vf_stream *f = vf_mk_ostream(CAPW);
  size_t p0 = nondet_size_t();
  __CPROVER_assume(p0 <= 1);
  f->pos = (long)p0; f->len = p0;
  unsigned char before = f->buf[vf_gb < CAPW ? vf_gb : 0];
  int gid = nondet_int();
  __CPROVER_assume(gid >= 1 && gid <= 127);
  vf_spos *dsp = (vf_spos *)vf_alloc(sizeof(vf_spos));
  vf_spos dsp0 = *dsp;
  vf_fault_enabled = 0; vf_exc = 0;
  Parameter__write(self, f, gid, dsp);
  _Bool scalar = (nd == 1 && d0 == 1);
  size_t ndw = scalar ? 0 : nd;             /* dimension bytes written */
  size_t data_at = p0 + 2 + L + 2 + 1 + 1 + ndw;
  size_t desc_at = data_at + 4 * n;
  size_t end = desc_at + 1 + D;
  /*@ C03 C14 : Parameter_write.record-length */
  __CPROVER_assert(vf_exc == 0 && !f->fail && (size_t)f->pos == end && f->len == end, "record = 2 + name + 2 + 1 + 1 + dims + data + 1 + description bytes");
  /*@ C03 C17 : Parameter_write.name-length-byte-with-lock-sign */
  __CPROVER_assert(BB(p0) == (unsigned char)(self->_isLocked ? -(int)L : (int)L), "name length, negative when locked");
  /*@ C03 : Parameter_write.group-id-byte */
  __CPROVER_assert(BB(p0 + 1) == (unsigned char)gid, "owning group id as passed by Group::write");
  /*@ C03 C01 : Parameter_write.name-upper-case */
  __CPROVER_assert(vf_gc >= L || BB(p0 + 2 + vf_gc) == (unsigned char)VF_UPPER(self->_name.data[vf_gc]), "name characters, upper-cased");
  /*@ C03 C02 : Parameter_write.offset-to-the-next-record */
  __CPROVER_assert((BB(p0 + 2 + L) | (BB(p0 + 3 + L) << 8)) == end - (p0 + 2 + L), "offset word: distance from the word to the end of the record");
  /*@ C03 C12 : Parameter_write.type-byte */
  __CPROVER_assert(BB(p0 + 4 + L) == 4, "element width 4 = 32-bit floats");
  /*@ C03 C01 : Parameter_write.dimension-count-byte */
  __CPROVER_assert(BB(p0 + 5 + L) == ndw, "0 for a scalar, else the number of dimensions");
  /*@ C03 C01 : Parameter_write.dimension-bytes */
  __CPROVER_assert(scalar || vf_gd >= nd || BB(p0 + 6 + L + vf_gd) == self->_dimension.data[vf_gd], "one byte per dimension");
  {
    const unsigned char *vf_src = (const unsigned char *)&self->_param_data_float.data[vf_gv < n ? vf_gv : 0];
    /*@ C03 C01 C12 C14 : Parameter_write.float-elements-in-storage-order */
    __CPROVER_assert(vf_gv >= n || (BB(data_at + 4 * vf_gv) == vf_src[0] && BB(data_at + 4 * vf_gv + 1) == vf_src[1] && BB(data_at + 4 * vf_gv + 2) == vf_src[2] &&
                                    BB(data_at + 4 * vf_gv + 3) == vf_src[3]), "element k as its four object-representation bytes at data + 4k (every bit pattern, NaN included)");
  }
  /*@ C03 C04 : Parameter_write.description-length-byte */
  __CPROVER_assert(BB(desc_at) == D, "description length");
  /*@ C03 C04 C14 : Parameter_write.description-bytes */
  __CPROVER_assert(vf_gc >= D || BB(desc_at + 1 + vf_gc) == (unsigned char)self->_description.data[vf_gc], "description characters");
  /*@ C14 : Parameter_write.earlier-bytes-untouched */
  __CPROVER_assert(!(vf_gb < p0) || f->buf[vf_gb] == before, "nothing before the record is written");
  /*@ C03 : Parameter_write.data-start-slot-only-for-DATA_START */
  __CPROVER_assert(*dsp == dsp0, "only POINT:DATA_START records its position");
  VF_CANARY();
}


/* ---------------------------------------------------------------- one-dimensional CHAR parameter (the shape the reader
 * produces for a padded text: declared width kept in dimension[0], text trimmed): the cell must have the declared width,
 * text then spaces (C04: load -> save -> load; C14: every byte defined, nothing read past the string).
 * Bound: declared width 1..4, text no longer than the width, name 1..2 characters, description <= 2. */
void h_B_Parameter_write_char1d(void)
{
  struct Parameter *self = (struct Parameter *)vf_alloc(sizeof(*self));
  size_t L = nondet_size_t(), D = nondet_size_t(), w = nondet_size_t(), t = nondet_size_t();
  __CPROVER_assume(L >= 1 && L <= 2 && D <= 2 && w >= 1 && w <= 4 && t <= w);
  self->_name.size = L; self->_name.data = (char *)vf_alloc(3); self->_name.data[L] = 0;
  self->_description.size = D; self->_description.data = (char *)vf_alloc(3); self->_description.data[D] = 0;
  self->_data_type = -1;
  self->_dimension.size = 1;
  self->_dimension.data = (size_t *)vf_alloc(sizeof(size_t));
  self->_dimension.data[0] = w;
  self->_param_data_int.size = 0; self->_param_data_int.data = 0;
  self->_param_data_float.size = 0; self->_param_data_float.data = 0;
  self->_param_data_string.size = 1;
  self->_param_data_string.data = (vf_string *)vf_alloc(sizeof(vf_string));
  self->_param_data_string.data[0].size = t;
  self->_param_data_string.data[0].data = (char *)vf_alloc(t + 1);   /* exactly the string: reading past it is an error */
  self->_param_data_string.data[0].data[t] = 0;
  vf_stream *f = vf_mk_ostream(CAPW);
  size_t p0 = nondet_size_t();
  __CPROVER_assume(p0 <= 1);
  f->pos = (long)p0; f->len = p0;
  int gid = nondet_int();
  __CPROVER_assume(gid >= 1 && gid <= 127);
  vf_spos *dsp = (vf_spos *)vf_alloc(sizeof(vf_spos));
  vf_fault_enabled = 0; vf_exc = 0;
  Parameter__write(self, f, gid, dsp);
  size_t ndw = (w == 1) ? 0 : 1;
  size_t data_at = p0 + 2 + L + 2 + 1 + 1 + ndw;
  size_t desc_at = data_at + w;
  size_t end = desc_at + 1 + D;
  /*@ C03 C04 C14 : Parameter_write_char1d.cell-has-the-declared-width */
  __CPROVER_assert(vf_exc == 0 && !f->fail && (size_t)f->pos == end && f->len == end, "the text cell is dimension[0] bytes wide");
  /*@ C03 C04 : Parameter_write_char1d.type-and-dimension */
  __CPROVER_assert(BB(p0 + 4 + L) == 0xFF && BB(p0 + 5 + L) == ndw && (ndw == 0 || BB(p0 + 6 + L) == w), "type -1, one dimension = the declared width");
  /*@ C04 C14 : Parameter_write_char1d.text-bytes */
  __CPROVER_assert(vf_gc >= t || BB(data_at + vf_gc) == (unsigned char)self->_param_data_string.data[0].data[vf_gc], "the text");
  /*@ C04 C14 : Parameter_write_char1d.text-padded-with-spaces */
  __CPROVER_assert(!(vf_gc >= t && vf_gc < w) || BB(data_at + vf_gc) == ' ', "padded with spaces up to the declared width");
  /*@ C03 C02 : Parameter_write_char1d.offset-to-the-next-record */
  __CPROVER_assert((BB(p0 + 2 + L) | (BB(p0 + 3 + L) << 8)) == end - (p0 + 2 + L), "offset word");
  /*@ C03 C04 : Parameter_write_char1d.description */
  __CPROVER_assert(BB(desc_at) == D && (vf_gn >= D || BB(desc_at + 1 + vf_gn) == (unsigned char)self->_description.data[vf_gn]), "description length and characters");
  VF_CANARY();
}

#ifdef VF_ROUNDTRIP
/* ---------------------------------------------------------------- per-record round trip (C01 C04): the real Parameter::write,
 * then the real Parameter::read and matrix reader on the bytes just written (read helpers = value stubs), compared field by
 * field.  Bound: INT parameter, name of VF_RT_L characters, VF_RT_N elements in one dimension (one unit per pair), description <= 2. */
long nondet_long(void);
#define VF_STUB_STR_CUT
#include "value_stubs.h"
/* the record is an INT record: the float and string matrix readers must not be reached */
void stubr_float_not_reached(struct c3d *self, const vf_vec_size_t *d, vf_vec_float *out, size_t cur)
{
  /*@ C01 C04 : Parameter_roundtrip.type-dispatch */
  __CPROVER_assert(0, "an INT record is not decoded by the float reader");
}
void stubr_string_not_reached(struct c3d *self, const vf_vec_size_t *d, vf_vec_string *out)
{
  /*@ C01 C04 : Parameter_roundtrip.type-dispatch-2 */
  __CPROVER_assert(0, "an INT record is not decoded by the string reader");
}
void h_B_Parameter_roundtrip(void)
{
  struct Parameter *self = (struct Parameter *)vf_alloc(sizeof(*self));
  /* name length and element count are constants (VF_RT_L, VF_RT_N): the record offsets are then concrete, and the reader's
   * recursion depth is decided during symbolic execution */
  size_t L = VF_RT_L, D = VF_RT_D; /* (a write of symbolic length turns the whole buffer into a conditional expression) */
  self->_name.size = L; self->_name.data = (char *)vf_alloc(3); self->_name.data[L] = 0;
  self->_description.size = D; self->_description.data = (char *)vf_alloc(3); self->_description.data[D] = 0;
  __CPROVER_assume(self->_name.data[0] != 0 && (L < 2 || self->_name.data[1] != 0));               /* std::string content read back through c_str */
  __CPROVER_assume(D < 1 || self->_description.data[0] != 0);
  __CPROVER_assume(D < 2 || self->_description.data[1] != 0);
  self->_isLocked = VF_RT_LOCKED; /* constant as well: the writer negates the name length twice under this flag */
  self->_data_type = 2;
  self->_dimension.size = 1;
  self->_dimension.data = (size_t *)vf_alloc(sizeof(size_t));
  self->_dimension.data[0] = VF_RT_N;
  size_t n = VF_RT_N;
  self->_param_data_int.size = n;
  self->_param_data_int.data = (int *)vf_alloc(2 * sizeof(int));
  __CPROVER_assume(self->_param_data_int.data[0] >= -32768 && self->_param_data_int.data[0] <= 32767);  /* 16-bit element type */
  __CPROVER_assume(self->_param_data_int.data[1] >= -32768 && self->_param_data_int.data[1] <= 32767);
  self->_param_data_float.size = 0; self->_param_data_float.data = 0;
  self->_param_data_string.size = 0; self->_param_data_string.data = 0;
  vf_stream *f = vf_mk_ostream(CAPW);
  int gid = nondet_int();
  __CPROVER_assume(gid >= 1 && gid <= 127);
  vf_spos *dsp = (vf_spos *)vf_alloc(sizeof(vf_spos));
  vf_fault_enabled = 0; vf_exc = 0;
  Parameter__write(self, f, gid, dsp);
  __CPROVER_assert(vf_exc == 0 && !f->fail, "written");
  size_t end = (size_t)f->pos;
  /* reload: the record walker has consumed the name-length and group-id bytes */
  struct c3d *file = (struct c3d *)vf_alloc(sizeof(*file));
  file->vf_base = *f;
  file->vf_base.len = end;
  file->vf_base.pos = 2;
  file->vf_base.writable = 0;
  struct Parameter *back = (struct Parameter *)vf_alloc(sizeof(*back));
  back->_name.size = 0; back->_name.data = (char *)vf_alloc(1); back->_name.data[0] = 0;
  back->_description.size = 0; back->_description.data = (char *)vf_alloc(1); back->_description.data[0] = 0;
  back->_data_type = 10000;
  back->_dimension.size = 0; back->_dimension.data = 0;
  back->_param_data_int.size = 0; back->_param_data_int.data = 0;
  back->_param_data_float.size = 0; back->_param_data_float.data = 0;
  back->_param_data_string.size = 0; back->_param_data_string.data = 0;
  /*@ C03 : Parameter_roundtrip.name-length-byte */
  __CPROVER_assert((int)(signed char)f->buf[0] == (self->_isLocked ? -(int)L : (int)L), "name length byte, negative when locked");
  int next;
  if (self->_isLocked)            /* the walker passes the name-length byte: a constant in each branch */
    next = Parameter__read(back, file, -(int)VF_RT_L);
  else
    next = Parameter__read(back, file, (int)VF_RT_L);
  /*@ C01 C04 : Parameter_roundtrip.accepted */
  __CPROVER_assert(vf_exc == 0 && !file->vf_base.fail, "the record just written is read back without error");
  /*@ C01 C04 : Parameter_roundtrip.lock-and-type */
  __CPROVER_assert(back->_isLocked == self->_isLocked && back->_data_type == 2, "lock flag and element type survive");
  /*@ C01 C04 : Parameter_roundtrip.name-upper-cased */
  __CPROVER_assert(back->_name.size == L && (vf_gc >= L || back->_name.data[vf_gc] == VF_UPPER(self->_name.data[vf_gc])), "name survives (upper-cased)");
  /*@ C01 C04 : Parameter_roundtrip.shape */
  __CPROVER_assert(back->_dimension.size == 1 && back->_dimension.data[0] == n, "shape survives (a 1-element vector comes back as the scalar shape {1})");
  /*@ C01 C04 C12 : Parameter_roundtrip.values */
  __CPROVER_assert(back->_param_data_int.size == n && (vf_gv >= n || back->_param_data_int.data[vf_gv] == self->_param_data_int.data[vf_gv]), "values survive");
  /*@ C01 C04 : Parameter_roundtrip.description */
  __CPROVER_assert(back->_description.size == D && (vf_gn >= D || back->_description.data[vf_gn] == self->_description.data[vf_gn]), "description survives");
  /*@ C01 C03 : Parameter_roundtrip.consumed-exactly-the-record */
  __CPROVER_assert((size_t)file->vf_base.pos == end && next == (int)end, "the reader ends where the writer ended, and the offset word points there");
  VF_CANARY();
}
#endif
