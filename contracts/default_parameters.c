/* Parameters::Parameters(): the mandatory groups and parameters of a new object - the base case of VALID_C3D (the ghost
 * directory the orchestration units assume) and of the C05 invariant (no point, no channel, no frame declared).
 * The constructor is straight-line code (25 parameters, 3 groups); it is executed symbolically against recording stubs of
 * the Group / Parameter constructors, setters, lock, Group::parameter(p) and Parameters::group(g): what is recorded is the
 * tree it builds, in order.  Complete execution (no loop of its own; literal copies unwound): level PB only because of the
 * recording capacity (32 parameters). */
#include "vf_harness.h"
VF_GHOSTS
#define CAP 32
/* the parameter being built */
int vf_cur_type; _Bool vf_cur_locked; long vf_cur_int; double vf_cur_dbl; size_t vf_cur_n;
/* recorded tree */
size_t vf_np, vf_ng;
size_t vf_p_group[CAP], vf_p_len[CAP], vf_p_n[CAP];
char vf_p_c0[CAP], vf_p_c1[CAP];
int vf_p_type[CAP]; _Bool vf_p_locked[CAP]; long vf_p_int[CAP]; double vf_p_dbl[CAP];
char vf_g_c0[4]; size_t vf_g_len[4];

void stubd_Group_ctor(struct Group *self, const vf_string *name, const vf_string *desc) { self->_name = *name; }
void stubd_Parameter_ctor(struct Parameter *self, const vf_string *name, const vf_string *desc)
{
  self->_name = *name;
  vf_cur_type = 10000; vf_cur_locked = 0; vf_cur_int = 0; vf_cur_dbl = 0; vf_cur_n = 0;
}
void stubd_set_int(struct Parameter *self, int v) { vf_cur_type = 2; vf_cur_int = v; vf_cur_n = 1; }
void stubd_set_double(struct Parameter *self, double v) { vf_cur_type = 4; vf_cur_dbl = v; vf_cur_n = 1; }
void stubd_set_vstr(struct Parameter *self, const vf_vec_string *d, const vf_vec_size_t *dim) { vf_cur_type = -1; vf_cur_n = d->size; }
void stubd_set_vint(struct Parameter *self, const vf_vec_int *d, const vf_vec_size_t *dim) { vf_cur_type = 2; vf_cur_n = d->size; }
void stubd_set_vfloat(struct Parameter *self, const vf_vec_float *d, const vf_vec_size_t *dim) { vf_cur_type = 4; vf_cur_n = d->size; }
void stubd_lock(struct Parameter *self) { vf_cur_locked = 1; }
void stubd_Group_parameter(struct Group *self, const struct Parameter *p)
{
  __CPROVER_assert(vf_cur_type != 10000, "every mandatory parameter is typed before it is added (Group::parameter refuses untyped ones)");
  if (vf_np < CAP) {
    vf_p_group[vf_np] = vf_ng; vf_p_len[vf_np] = p->_name.size; vf_p_c0[vf_np] = p->_name.data[0];
    vf_p_c1[vf_np] = p->_name.size > 1 ? p->_name.data[1] : 0;
    vf_p_type[vf_np] = vf_cur_type; vf_p_locked[vf_np] = vf_cur_locked; vf_p_int[vf_np] = vf_cur_int; vf_p_dbl[vf_np] = vf_cur_dbl; vf_p_n[vf_np] = vf_cur_n;
  }
  ++vf_np;
}
void stubd_Parameters_group(struct Parameters *self, const struct Group *g)
{
  if (vf_ng < 4) { vf_g_c0[vf_ng] = g->_name.data[0]; vf_g_len[vf_ng] = g->_name.size; }
  ++vf_ng;
}

/* index of the first recorded parameter (group g, name of length len starting c0 c1), CAP if none */
static size_t find(size_t g, size_t len, char c0, char c1)
{
  size_t r = CAP;
  for (size_t i = CAP; i-- > 0;)
    if (i < vf_np && vf_p_group[i] == g && vf_p_len[i] == len && vf_p_c0[i] == c0 && vf_p_c1[i] == c1) r = i;
  return r;
}
#define HAS(g, len, c0, c1, ty) (find(g, len, c0, c1) < CAP && vf_p_type[find(g, len, c0, c1)] == (ty))

void h_Parameters_default_ctor(void)
{
  struct Parameters *self = (struct Parameters *)vf_alloc(sizeof(*self));
  vf_np = 0; vf_ng = 0; vf_exc = 0;
  Parameters__ctor__void(self);
  /*@ C05 C09 : default_parameters.nothrow */ __CPROVER_assert(vf_exc == 0 && vf_np <= CAP, "never throws");
  /*@ C05 C09 : default_parameters.three-mandatory-groups-in-order */
  __CPROVER_assert(vf_ng == 3 && vf_g_c0[0] == 'P' && vf_g_len[0] == 5 && vf_g_c0[1] == 'A' && vf_g_len[1] == 6 && vf_g_c0[2] == 'F' && vf_g_len[2] == 14,
                   "groups POINT, ANALOG, FORCE_PLATFORM, in this order (ids 1, 2, 3 on file)");
  /*@ C05 : default_parameters.POINT-directory */
  __CPROVER_assert(HAS(0, 4, 'U', 'S', 2) && HAS(0, 4, 'R', 'A', 4) && HAS(0, 6, 'F', 'R', 2) && HAS(0, 6, 'L', 'A', -1) && HAS(0, 12, 'D', 'E', -1) &&
                   HAS(0, 5, 'U', 'N', -1) && HAS(0, 10, 'D', 'A', 2) && HAS(0, 5, 'S', 'C', 4),
                   "POINT has USED(int) RATE(float) FRAMES(int) LABELS DESCRIPTIONS UNITS(char) DATA_START(int) SCALE(float)");
  /*@ C05 : default_parameters.ANALOG-directory */
  __CPROVER_assert(HAS(1, 4, 'U', 'S', 2) && HAS(1, 4, 'R', 'A', 4) && HAS(1, 6, 'L', 'A', -1) && HAS(1, 12, 'D', 'E', -1) && HAS(1, 5, 'S', 'C', 4) &&
                   HAS(1, 6, 'O', 'F', 2) && HAS(1, 5, 'U', 'N', -1) && HAS(1, 9, 'G', 'E', 2),
                   "ANALOG has USED(int) RATE(float) LABELS DESCRIPTIONS(char) SCALE(float) OFFSET(int) UNITS(char) GEN_SCALE");
  /*@ C05 : default_parameters.nothing-declared-yet */
  __CPROVER_assert(vf_p_int[find(0, 4, 'U', 'S')] == 0 && vf_p_n[find(0, 4, 'U', 'S')] == 1 && vf_p_int[find(0, 6, 'F', 'R')] == 0 &&
                   vf_p_n[find(0, 6, 'L', 'A')] == 0 && vf_p_int[find(1, 4, 'U', 'S')] == 0 && vf_p_n[find(1, 6, 'L', 'A')] == 0 &&
                   vf_p_n[find(1, 5, 'S', 'C')] == 0 && vf_p_n[find(1, 6, 'O', 'F')] == 0 && vf_p_n[find(1, 5, 'U', 'N')] == 0 &&
                   vf_p_dbl[find(0, 4, 'R', 'A')] == 0.0 && vf_p_dbl[find(1, 4, 'R', 'A')] == 0.0,
                   "POINT:USED = FRAMES = 0, ANALOG:USED = 0, no label, no scale / offset / unit entry, rates 0: the three views agree on 'empty'");
  /*@ C09 : default_parameters.names-unique-within-a-group */
  __CPROVER_assert(vf_gp >= vf_np || vf_gv >= vf_np || vf_gp == vf_gv || vf_p_group[vf_gp] != vf_p_group[vf_gv] || vf_p_len[vf_gp] != vf_p_len[vf_gv] ||
                   vf_p_c0[vf_gp] != vf_p_c0[vf_gv] || vf_p_c1[vf_gp] != vf_p_c1[vf_gv],
                   "no two mandatory parameters of a group share length and first two characters (so none shares a name)");
  VF_CANARY();
}
