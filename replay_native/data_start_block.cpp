// obligation Parameters_write.data-start-is-1-based-block-of-data : POINT:DATA_START (and header word 9) must name the
// 1-based 512-byte block where the data section starts, as the C3D specification and the vendor files do
// (Vicon.c3d: parameters at block 2, 27 parameter blocks, DATA_START = 29).  The replay saves a file and compares the
// stored value with the position where the library itself starts writing frames.
#include "common.h"
#include <fstream>
int main()
{
    const char *path = "/var/tmp/vf_replay_ds.c3d";
    ezc3d::c3d c;
    c.write(path);
    ezc3d::c3d r(path);
    // real start of the data section: parameter section starts at block 2 and spans nbParamBlock blocks
    size_t realBlock = r.header().parametersAddress() + r.parameters().nbParamBlock();   // 1-based
    int stored = r.parameters().group("POINT").parameter("DATA_START").valuesAsInt()[0];
    printf("data section really starts at block %zu (1-based); POINT:DATA_START = %d; header word 9 = %zu\n", realBlock, stored, r.header().dataStart());
    remove(path);
    return stored == (int)realBlock ? 0 : 1;
}
