// C16/C13: a parameter record of type CHAR with 0 dimensions (a single character - legal C3D), or any record whose
// dimension count byte is negative, reaches the matrix reader with an empty dimension list: dimension[0] is read
// from an empty vector.
#include "common.h"
#include <fstream>
int main()
{
    const char *path = "/tmp/vf_char_scalar.c3d";
    {
        ezc3d::c3d c;
        ezc3d::ParametersNS::GroupNS::Parameter p("ZZ");
        p.set(std::vector<int>{7}, {1});
        c.parameter("DEMO", p);
        c.write(path);
    }
    std::fstream f(path, std::ios::in | std::ios::out | std::ios::binary);
    std::string img((std::istreambuf_iterator<char>(f)), std::istreambuf_iterator<char>());
    size_t at = img.find("ZZ", 512);
    if (at == std::string::npos) { printf("record not found\n"); return 2; }
    // name(2) offset(2) type(1) ndims(1): turn the INT scalar into a CHAR scalar
    f.clear(); f.seekp(static_cast<std::streamoff>(at + 4)); char t = -1; f.write(&t, 1); f.close();
    try {
        ezc3d::c3d r(path);
        printf("loaded\n");
    } catch (std::exception &e) { printf("refused: %s\n", e.what()); }
    remove(path);
    return 0;
}
