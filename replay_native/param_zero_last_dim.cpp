// C16: a parameter record whose dimensions are FF FF FF FF FF 00 announces no data at all (last dimension 0), so the matrix
// readers never touch the stream and their end-of-file test is never reached: they loop 255^5 times over an empty inner
// loop.  A file of a few hundred bytes keeps the loader busy for hours (alarm after 5 s here).
#include "common.h"
#include <fstream>
#include <unistd.h>
#include <signal.h>
static void on_alarm(int) { const char m[] = "still loading after 5 s: not proportional to the file size\n"; if (write(1, m, sizeof(m) - 1)) {} _exit(1); }
int main()
{
    const char *path = "/tmp/vf_zero_dim.c3d";
    {
        ezc3d::c3d c;
        ezc3d::ParametersNS::GroupNS::Parameter p("ZZ");
        p.set(std::vector<int>{7}, {1});
        c.parameter("DEMO", p);
        c.write(path);
    }
    std::string img;
    { std::ifstream f(path, std::ios::binary); img.assign((std::istreambuf_iterator<char>(f)), std::istreambuf_iterator<char>()); }
    size_t at = img.find("ZZ", 512);
    if (at == std::string::npos) { printf("record not found\n"); return 2; }
    // name(2) offset(2) type(1) ndims(1) dims...: 6 dimensions FF FF FF FF FF 00 (the bytes after them are whatever follows)
    img[at + 5] = 6;
    for (int i = 0; i < 5; ++i) img[at + 6 + i] = static_cast<char>(255);
    img[at + 11] = 0;
    { std::ofstream f(path, std::ios::binary | std::ios::trunc); f.write(img.data(), static_cast<std::streamsize>(img.size())); }
    signal(SIGALRM, on_alarm);
    alarm(5);
    try { ezc3d::c3d r(path); printf("loaded\n"); } catch (std::exception &e) { printf("refused: %s\n", e.what()); }
    remove(path);
    return 0;
}
