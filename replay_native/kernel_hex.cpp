// replay of hex2uint / hex2int obligations on the counterexample bytes: kernel_hex <uint|int> <len> b0 b1 b2 b3
#include "common.h"
int main(int argc, char **argv)
{
    if (argc < 7) return 2;
    bool sgn = !strcmp(argv[1], "int");
    unsigned len = (unsigned)strtoul(argv[2], 0, 0);
    unsigned char b[4];
    for (int i = 0; i < 4; ++i) b[i] = (unsigned char)strtoul(argv[3 + i], 0, 0);
    Open c;
    unsigned want = 0;
    for (unsigned i = 0; i < len && i < 4; ++i) want |= (unsigned)b[i] << (8 * i);
    if (!sgn) {
        unsigned got = c.hex2uint(reinterpret_cast<const char *>(b), len);
        printf("hex2uint(len=%u, %02x %02x %02x %02x) = %u, the bytes encode %u\n", len, b[0], b[1], b[2], b[3], got, want);
        return got == want ? 0 : 1;
    }
    long wants = len == 1 ? (long)(signed char)b[0] : len == 2 ? (long)(short)(unsigned short)want : (long)(int)want;
    int got = c.hex2int(reinterpret_cast<const char *>(b), len);
    printf("hex2int(len=%u, %02x %02x %02x %02x) = %d, the bytes encode %ld\n", len, b[0], b[1], b[2], b[3], got, wants);
    return (long)got == wants ? 0 : 1;
}
