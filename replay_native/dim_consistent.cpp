// replay of isDimensionConsistent obligations on the counterexample: dim_consistent <dataSize> d0 d1 ...
#include "common.h"
struct P : public ezc3d::ParametersNS::GroupNS::Parameter { using Parameter::isDimensionConsistent; };
int main(int argc, char **argv)
{
    if (argc < 2) return 2;
    size_t n = strtoull(argv[1], 0, 0);
    std::vector<size_t> d;
    unsigned __int128 prod = 1;
    for (int i = 2; i < argc; ++i) { d.push_back(strtoull(argv[i], 0, 0)); prod *= d.back(); }
    bool want = n == 0 ? (d.empty() || prod == 0) : (prod == n);
    P p;
    bool got = p.isDimensionConsistent(n, d);
    printf("isDimensionConsistent(%zu, %zu dims) = %d, the product predicate says %d\n", n, d.size(), (int)got, (int)want);
    return got == want ? 0 : 1;
}
