#!/bin/sh
# usage: build.sh <name> <outdir> [extra g++ flags]  - builds replay <name>.cpp against /repo's current sources
set -e
name=$1; out=$2; shift 2
REPO=${VF_REPO:-/repo}
g++ -std=c++11 -O0 -g -D_GLIBCXX_ASSERTIONS "$@" -I$REPO/include -I$(dirname $0) $(dirname $0)/$name.cpp $REPO/src/*.cpp -o $out/$name
