// replay of removeTrailingSpaces obligations on the counterexample string, given as byte values: trim b0 b1 ...
#include "common.h"
int main(int argc, char **argv)
{
    std::string s;
    for (int i = 1; i < argc; ++i) s.push_back((char)strtoul(argv[i], 0, 0));
    std::string want = s;
    while (!want.empty() && want[want.size() - 1] == ' ') want.erase(want.size() - 1);
    std::string got = s;
    ezc3d::removeTrailingSpaces(got);
    printf("input %zu chars -> %zu chars kept, the longest prefix not ending in a space has %zu\n", s.size(), got.size(), want.size());
    return got == want ? 0 : 1;
}
