// Data::frame(frame, idx) when `frame` is an element of the data set itself and the call grows the data set:
// the growth reallocates the frames and the reference dangles.  (ASan: heap-use-after-free.)
#include "common.h"
int main()
{
    ezc3d::c3d c;
    ezc3d::ParametersNS::GroupNS::Parameter r("RATE", ""); r.set(100.0); c.parameter("POINT", r);
    c.point("p1");
    ezc3d::DataNS::Frame f; ezc3d::DataNS::Points3dNS::Points pts; ezc3d::DataNS::Points3dNS::Point p("p1"); p.x(7); pts.point(p); f.add(pts);
    c.frame(f);
    for (int i = 0; i < 40; ++i) c.frame(c.data().frame(0));       // append copies of a stored frame
    c.frame(c.data().frame(0), 200);                               // extend with a stored frame
    float x = c.data().frame(200).points().point(0).x();
    printf("frames=%zu x of last=%g\n", c.data().nbFrames(), x);
    return x == 7.0f ? 0 : 1;
}
