// replay of the Header::nbAnalogByFrame(k) obligations on the counterexample: header_subframes <channels> <k0> <k>
#include "common.h"
int main(int argc, char **argv)
{
    if (argc < 4) return 2;
    size_t a = strtoull(argv[1], 0, 0), k0 = strtoull(argv[2], 0, 0), k = strtoull(argv[3], 0, 0);
    ezc3d::Header h;
    h.nbAnalogByFrame(k0);
    h.nbAnalogs(a);                       // samples per frame = a * k0
    h.nbAnalogByFrame(k);
    size_t want = (k0 == 0) ? 0 : a * k;
    printf("channels %zu, sub-frames %zu -> %zu: samples per frame = %zu, channels x sub-frames = %zu\n", a, k0, k, h.nbAnalogsMeasurement(), want);
    return h.nbAnalogsMeasurement() == want && h.nbAnalogByFrame() == k ? 0 : 1;
}
