// C03: header word 9 (first block of the data section, 1-based) must point at the data the file really holds
// (and agree with POINT:DATA_START); an independent reader locates the data through it.
#include "common.h"
#include <fstream>
int main()
{
    const char *path = "/tmp/vf_datastart.c3d";
    ezc3d::c3d c;
    ezc3d::ParametersNS::GroupNS::Parameter r("RATE"); r.set(std::vector<float>{100.f}, {1}); c.parameter("POINT", r);
    c.point("A");
    ezc3d::DataNS::Frame f; ezc3d::DataNS::Points3dNS::Points pts; ezc3d::DataNS::Points3dNS::Point a; a.name("A"); a.x(1.5f); a.y(2.5f); a.z(3.5f); pts.point(a); f.add(pts);
    c.frame(f);
    c.write(path);
    std::ifstream in(path, std::ios::binary);
    std::string img((std::istreambuf_iterator<char>(in)), std::istreambuf_iterator<char>());
    unsigned hdr = (unsigned char)img[16] | ((unsigned char)img[17] << 8);
    unsigned nparam = (unsigned char)img[512 + 2];
    unsigned expect = 2 + nparam;           // header = block 1, parameters = blocks 2 .. 1+nparam, data from the next one
    ezc3d::c3d back(path);
    int ds = back.parameters().group("POINT").parameter("DATA_START").valuesAsInt()[0];
    float x = 0; memcpy(&x, &img[(expect - 1) * 512], 4);
    printf("file of %zu bytes: header word 9 = %u, POINT:DATA_START = %d, parameter blocks = %u -> data starts in block %u (first float there = %g)\n",
           img.size(), hdr, ds, nparam, expect, x);
    remove(path);
    return (hdr == expect && (unsigned)ds == expect) ? 0 : 1;
}
