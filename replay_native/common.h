// Native replays of failed obligations against the real library (sources of /repo's working tree).
// Each program exits 1 when the defect is reproduced on the real code, 0 when the real code satisfies
// the clause on that input.
#include "ezc3d.h"
#include "Header.h"
#include "Parameters.h"
#include "Data.h"
#include <cstdio>
#include <cstdlib>
#include <cstring>
#include <iostream>
struct Open : public ezc3d::c3d {
    using ezc3d::c3d::hex2uint;
    using ezc3d::c3d::hex2int;
    using ezc3d::c3d::readInt;
    using ezc3d::c3d::readUint;
    using ezc3d::c3d::readFloat;
    using ezc3d::c3d::readString;
    Open() : ezc3d::c3d() {}
    Open(const std::string &p) : ezc3d::c3d(p) {}
};
