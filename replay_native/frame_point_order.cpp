// C01/C05: a frame whose points are named like POINT:LABELS but come in another order is accepted; LABELS are then not in
// data order, and since names are not stored with the data, build -> save -> load hands each name the other point's data.
#include "common.h"
int main()
{
    ezc3d::c3d c;
    ezc3d::ParametersNS::GroupNS::Parameter r("RATE"); r.set(std::vector<float>{100.f}, {1}); c.parameter("POINT", r);
    c.point("A"); c.point("B");
    ezc3d::DataNS::Frame f; ezc3d::DataNS::Points3dNS::Points pts; ezc3d::DataNS::Points3dNS::Point a, b;
    a.name("A"); a.x(1); a.y(1); a.z(1); b.name("B"); b.x(2); b.y(2); b.z(2);
    pts.point(b); pts.point(a);                 // declared order A, B; frame order B, A
    f.add(pts);
    bool accepted = true;
    try { c.frame(f); } catch (std::exception &e) { accepted = false; printf("refused: %s\n", e.what()); }
    if (!accepted) return 0;                    // refusing the frame is fine
    float before = c.data().frame(0).points().point("A").x();
    std::string l0 = c.parameters().group("POINT").parameter("LABELS").valuesAsString()[0];
    std::string d0 = c.data().frame(0).points().point(0).name();
    c.write("/tmp/vf_order.c3d");
    ezc3d::c3d r2("/tmp/vf_order.c3d");
    float after = r2.data().frame(0).points().point("A").x();
    printf("accepted; LABELS[0]=%s, stored point 0 is %s; A.x before save = %g, after reload = %g\n", l0.c_str(), d0.c_str(), before, after);
    remove("/tmp/vf_order.c3d");
    return (l0 == d0 && before == after) ? 0 : 1;
}
