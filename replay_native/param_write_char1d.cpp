// obligations Parameter_write_char1d.cell-has-the-declared-width / .text-padded-with-spaces :
// a one-dimensional character parameter as the *reader* leaves it (declared width in dimension()[0], text trimmed)
// must be written with the declared width, otherwise the record announces more data bytes than it contains and the
// following bytes (description length, description, next record) are read as text on reload.
#include "common.h"
#include <fstream>
struct P : public ezc3d::ParametersNS::GroupNS::Parameter {
    P() : Parameter("NOTE", "d") {}
    void loadedState(const std::string &text, size_t width) { _data_type = ezc3d::DATA_TYPE::CHAR; _dimension = {width}; _param_data_string = {text}; }
};
int main()
{
    const char *path = "/var/tmp/vf_replay_p1d.bin";
    P p; p.loadedState("abc", 8);
    std::streampos dsp;
    { std::fstream f(path, std::ios::out | std::ios::binary); p.write(f, 1, dsp); }
    std::ifstream in(path, std::ios::binary);
    std::string s((std::istreambuf_iterator<char>(in)), std::istreambuf_iterator<char>());
    remove(path);
    // record: len(1) id(1) name(4) offset(2) type(1) ndim(1) dim(1) DATA(width) desclen(1) desc(1)
    size_t want = 1 + 1 + 4 + 2 + 1 + 1 + 1 + 8 + 1 + 1;
    printf("record is %zu bytes, a record with the declared width of 8 is %zu bytes; data bytes:", s.size(), want);
    for (size_t i = 11; i < s.size() && i < 19; ++i) printf(" %02x", (unsigned char)s[i]);
    printf("\n");
    bool ok = s.size() == want && s.substr(11, 8) == "abc     ";
    return ok ? 0 : 1;
}
