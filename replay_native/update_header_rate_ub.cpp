// C19: updateHeader compares static_cast<int>(rate * 10000): undefined for a POINT:RATE of 214748.3648 Hz or more
// (build with -fsanitize=float-cast-overflow -fno-sanitize-recover=all: the conversion is reported and the program aborts)
#include "common.h"
int main(int argc, char **argv)
{
    float rate = argc > 1 ? strtof(argv[1], 0) : 300000.f;
    ezc3d::c3d c;
    ezc3d::ParametersNS::GroupNS::Parameter r("RATE");
    r.set(std::vector<float>{rate}, {1});
    c.parameter("POINT", r);      // -> updateHeader
    printf("POINT:RATE = %g, header rate = %g\n", rate, c.header().frameRate());
    return c.header().frameRate() == rate ? 0 : 1;
}
