// obligation c3d_dtor.memsafe@ezc3d.cpp:63 : c_float comes from new char[] and must be released with delete[]
// built with -fsanitize=address: ASan reports alloc-dealloc-mismatch and aborts (exit != 0)
#include "common.h"
int main()
{
    { ezc3d::c3d c; }
    printf("constructed and destroyed one c3d\n");
    return 0;
}
