// C10: c3d::point(frames) / c3d::analog(frames) refused because the SECOND new column duplicates an existing label:
// the data set must be unchanged (no first column left behind in the stored frames).
#include "common.h"
int main()
{
    int bad = 0;
    {
        ezc3d::c3d c;
        ezc3d::ParametersNS::GroupNS::Parameter r("RATE"); r.set(std::vector<float>{100.f}, {1}); c.parameter("POINT", r);
        c.point("existing");
        ezc3d::DataNS::Frame f; ezc3d::DataNS::Points3dNS::Points pts; ezc3d::DataNS::Points3dNS::Point p; p.name("existing"); pts.point(p); f.add(pts);
        c.frame(f);
        std::vector<ezc3d::DataNS::Frame> cols(1);
        ezc3d::DataNS::Points3dNS::Points np; ezc3d::DataNS::Points3dNS::Point a, b; a.name("fresh"); b.name("existing"); np.point(a); np.point(b);
        cols[0].add(np);
        bool thrown = false;
        try { c.point(cols); } catch (std::invalid_argument &) { thrown = true; }
        size_t n = c.data().frame(0).points().nbPoints();
        int used = c.parameters().group("POINT").parameter("USED").valuesAsInt()[0];
        printf("point(frames) with columns {fresh, existing}: refused=%d, points in stored frame 0 = %zu, POINT:USED = %d\n", thrown, n, used);
        bad |= !(thrown && n == 1 && used == 1);
    }
    {
        ezc3d::c3d c;
        ezc3d::ParametersNS::GroupNS::Parameter r("RATE"); r.set(std::vector<float>{100.f}, {1}); c.parameter("POINT", r);
        ezc3d::ParametersNS::GroupNS::Parameter ar("RATE"); ar.set(std::vector<float>{100.f}, {1}); c.parameter("ANALOG", ar);
        c.analog("existing");
        ezc3d::DataNS::Frame f; ezc3d::DataNS::AnalogsNS::Analogs an; ezc3d::DataNS::AnalogsNS::SubFrame sf; ezc3d::DataNS::AnalogsNS::Channel ch; ch.name("existing"); ch.data(1); sf.channel(ch); an.subframe(sf); f.add(an);
        c.frame(f);
        std::vector<ezc3d::DataNS::Frame> cols(1);
        ezc3d::DataNS::AnalogsNS::Analogs nan; ezc3d::DataNS::AnalogsNS::SubFrame nsf; ezc3d::DataNS::AnalogsNS::Channel a, b; a.name("fresh"); b.name("existing"); nsf.channel(a); nsf.channel(b); nan.subframe(nsf);
        cols[0].add(nan);
        bool thrown = false;
        try { c.analog(cols); } catch (std::invalid_argument &) { thrown = true; }
        size_t n = c.data().frame(0).analogs().subframe(0).nbChannels();
        int used = c.parameters().group("ANALOG").parameter("USED").valuesAsInt()[0];
        printf("analog(frames) with columns {fresh, existing}: refused=%d, channels in stored sub-frame = %zu, ANALOG:USED = %d\n", thrown, n, used);
        bad |= !(thrown && n == 1 && used == 1);
    }
    return bad;
}
