// C13: c3d::analog(frames) with an empty vector on an object without frames (frames[0] of an empty vector)
#include "common.h"
int main()
{
    ezc3d::c3d c;
    std::vector<ezc3d::DataNS::Frame> none;
    try { c.analog(none); } catch (std::invalid_argument &) { printf("refused with invalid_argument\n"); return 0; }
    printf("returned normally\n");
    return 1;
}
