// scenario replay for the copy-constructor obligations: every component of a Point / Channel must survive a copy
#include "common.h"
static unsigned bits(float f) { unsigned u; memcpy(&u, &f, 4); return u; }
int main()
{
    int bad = 0;
    float vals[5] = {1.5f, -0.0f, 3.25e-40f /* denormal */, 7.0f, 0.0f};
    unsigned nanbits = 0x7fc12345; memcpy(&vals[4], &nanbits, 4);
    for (int k = 0; k < 5; ++k) {
        ezc3d::DataNS::Points3dNS::Point p("Some Name");
        p.x(vals[k]); p.y(vals[(k + 1) % 5]); p.z(vals[(k + 2) % 5]); p.residual(vals[(k + 3) % 5]);
        ezc3d::DataNS::Points3dNS::Point q(p);
        if (bits(q.x()) != bits(p.x()) || bits(q.y()) != bits(p.y()) || bits(q.z()) != bits(p.z()) || bits(q.residual()) != bits(p.residual()) || q.name() != p.name()) {
            printf("Point copy differs (case %d): x %08x/%08x y %08x/%08x z %08x/%08x residual %08x/%08x name '%s'/'%s'\n", k, bits(p.x()), bits(q.x()), bits(p.y()), bits(q.y()), bits(p.z()), bits(q.z()), bits(p.residual()), bits(q.residual()), p.name().c_str(), q.name().c_str());
            ++bad;
        }
        ezc3d::DataNS::AnalogsNS::Channel c("Chan"); c.data(vals[k]);
        ezc3d::DataNS::AnalogsNS::Channel d(c);
        if (bits(d.data()) != bits(c.data()) || d.name() != c.name()) { printf("Channel copy differs (case %d)\n", k); ++bad; }
    }
    printf("%d differing copies\n", bad);
    return bad ? 1 : 0;
}
