// obligation Point_copy.residual-kept : Point(const Point&) must keep the residual
#include "common.h"
int main(int argc, char **argv)
{
    float r = argc > 1 ? (float)atof(argv[1]) : 0.25f;
    ezc3d::DataNS::Points3dNS::Point p("P");
    p.x(1); p.y(2); p.z(3); p.residual(r);
    ezc3d::DataNS::Points3dNS::Point q(p);
    printf("source residual %g copy residual %g\n", p.residual(), q.residual());
    return memcmp(&r, &(const float &)q.residual(), 0) == 0 && q.residual() == r ? 0 : 1;
}
