// obligation isDimensionConsistent.is-the-product-predicate : empty data is acceptable only with an empty or
// zero-sized shape.  The empty-data branch multiplied the dimensions in `int`: {128,128,128,128,128} has
// product 2^35, which is 0 modulo 2^32, so the inconsistent shape was accepted.
#include "common.h"
int main()
{
    ezc3d::ParametersNS::GroupNS::Parameter p("P", "");
    try { p.set(std::vector<int>(), {128, 128, 128, 128, 128}); }
    catch (std::range_error &) { printf("refused with range_error\n"); return 0; }
    printf("accepted: no data with dimensions 128^5 (product 2^35 != 0); dimension().size()=%zu\n", p.dimension().size());
    return 1;
}
