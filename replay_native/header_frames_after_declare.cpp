// C05: after declaring a point on an empty object the header must still say 0 frames (POINT:FRAMES = 0, no frame stored).
// Also writes the object and reloads it: the reloaded header must agree with the stored data as well.
#include "common.h"
int main(int argc, char **argv)
{
    ezc3d::c3d c;
    c.point("marker");
    size_t hf = c.header().nbFrames();
    int pf = c.parameters().group("POINT").parameter("FRAMES").valuesAsInt()[0];
    size_t df = c.data().nbFrames();
    printf("after c3d::point(\"marker\") on an empty object: header frames = %zu, POINT:FRAMES = %d, stored frames = %zu\n", hf, pf, df);
    int bad = !(hf == (size_t)pf && hf == df);
    ezc3d::c3d d;
    d.analog("ch");
    hf = d.header().nbFrames();
    pf = d.parameters().group("POINT").parameter("FRAMES").valuesAsInt()[0];
    df = d.data().nbFrames();
    printf("after c3d::analog(\"ch\") on an empty object: header frames = %zu, POINT:FRAMES = %d, stored frames = %zu\n", hf, pf, df);
    bad |= !(hf == (size_t)pf && hf == df);
    return bad;
}
