// obligation Header_read.reserved-areas-read-as-1-2-or-4-byte-integers : Header::read reads the reserved areas with
// readInt(270) / readInt(44); hex2uint then evaluates static_cast<unsigned int>(pow(256, i)) for i >= 4, a
// floating-to-integer conversion of a value that unsigned int cannot represent (undefined behaviour: the result may
// differ between builds).  Built with -fsanitize=float-cast-overflow -fno-sanitize-recover=all: UBSan aborts on it.
#include "common.h"
int main(int argc, char **argv)
{
    ezc3d::c3d c(argc > 1 ? argv[1] : "/repo/test/c3dFiles/Vicon.c3d");
    printf("loaded, emptyBlock1 = %d\n", c.header().emptyBlock1());
    return 0;
}
