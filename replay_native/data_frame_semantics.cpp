// scenario replay for the Data::frame obligations (C06 C08): append / replace / extend, other frames untouched,
// frames in between empty and independent, stored frame independent of the caller's.
#include "common.h"
using namespace ezc3d::DataNS;
static Frame mk(float x, int npts)
{
    Frame f; Points3dNS::Points pts;
    for (int i = 0; i < npts; ++i) { Points3dNS::Point p("p" + std::to_string(i)); p.x(x + i); p.residual(0.5f); pts.point(p); }
    AnalogsNS::Analogs an; AnalogsNS::SubFrame sf; AnalogsNS::Channel c("c"); c.data(x); sf.channel(c); an.subframe(sf);
    f.add(pts, an); return f;
}
#define CHECK(c) do { if (!(c)) { printf("violated: %s (line %d)\n", #c, __LINE__); ++bad; } } while (0)
int main()
{
    int bad = 0;
    Data d;
    Frame a = mk(1, 2), b = mk(10, 3), e = mk(100, 1);
    d.frame(a); d.frame(b);                                  // append twice
    CHECK(d.nbFrames() == 2 && d.frame(0).points().nbPoints() == 2 && d.frame(1).points().nbPoints() == 3);
    a.points_nonConst().point_nonConst(0).x(-1);             // caller edits its frame afterwards
    CHECK(d.frame(0).points().point(0).x() == 1.0f);
    d.frame(e, 0);                                           // replace
    CHECK(d.nbFrames() == 2 && d.frame(0).points().nbPoints() == 1 && d.frame(1).points().point(0).x() == 10.0f);
    d.frame(b, 6);                                           // extend: frames 2..5 empty
    CHECK(d.nbFrames() == 7 && d.frame(6).points().nbPoints() == 3 && d.frame(1).points().nbPoints() == 3);
    for (size_t i = 2; i < 6; ++i) CHECK(d.frame(i).points().nbPoints() == 0 && d.frame(i).analogs().nbSubframes() == 0);
    Points3dNS::Point extra("extra");
    d.frame_nonConst(3).points_nonConst().point(extra);      // edit one gap frame: the others must not change
    CHECK(d.frame(3).points().nbPoints() == 1 && d.frame(2).points().nbPoints() == 0 && d.frame(4).points().nbPoints() == 0);
    d.frame(d.frame(6), 9);                                  // argument is a stored frame and the data set grows
    CHECK(d.nbFrames() == 10 && d.frame(9).points().nbPoints() == 3 && d.frame(9).points().point(1).x() == 11.0f);
    d.frame(d.frame(0));                                     // append a stored frame
    CHECK(d.nbFrames() == 11 && d.frame(10).points().nbPoints() == 1);
    printf("%d violated checks\n", bad);
    return bad ? 1 : 0;
}
