// C10: c3d::parameter(group, p) with an untyped parameter is refused (runtime_error) - the object must be unchanged.
#include "common.h"
int main()
{
    ezc3d::c3d c;
    size_t before = c.parameters().nbGroups();
    ezc3d::ParametersNS::GroupNS::Parameter p("VALUE");   // no set(): type NONE
    bool thrown = false;
    try { c.parameter("NEWGROUP", p); } catch (std::runtime_error &) { thrown = true; }
    size_t after = c.parameters().nbGroups();
    printf("refused (runtime_error): %s; groups before %zu, after %zu\n", thrown ? "yes" : "no", before, after);
    return thrown && after == before ? 0 : 1;
}
