// C16: POINT:USED and POINT:FRAMES overwritten with 0x7FFF in a 1 KB file (the header follows the parameters): does the data
// reader notice that the file has ended, or does it loop over the announced 32767 x 32767 points?
#include "common.h"
#include <fstream>
#include <unistd.h>
#include <signal.h>
static void on_alarm(int) { const char m[] = "still loading after 10 s: not proportional to the file size\n"; if (write(1, m, sizeof(m) - 1)) {} _exit(1); }
int main()
{
    const char *path = "/tmp/vf_counts.c3d";
    {
        ezc3d::c3d c;
        ezc3d::ParametersNS::GroupNS::Parameter r("RATE"); r.set(std::vector<float>{100.f}, {1}); c.parameter("POINT", r);
        c.point("A");
        ezc3d::DataNS::Frame f; ezc3d::DataNS::Points3dNS::Points pts; ezc3d::DataNS::Points3dNS::Point a; a.name("A"); pts.point(a); f.add(pts);
        c.frame(f);
        c.write(path);
    }
    {
        std::fstream f(path, std::ios::in | std::ios::out | std::ios::binary);
        std::string img((std::istreambuf_iterator<char>(f)), std::istreambuf_iterator<char>());
        const unsigned char big[2] = {0xFF, 0x7F};
        const char *names[2] = {"USED", "FRAMES"};
        for (int k = 0; k < 2; ++k) {
            size_t at = img.find(names[k], 512);              // first occurrence: the POINT group comes first
            if (at == std::string::npos) { printf("record not found\n"); return 2; }
            size_t L = strlen(names[k]);
            f.clear(); f.seekp(static_cast<std::streamoff>(at + L + 2 + 1 + 1)); f.write(reinterpret_cast<const char *>(big), 2);  // name offset(2) type(1) ndims(1) value
        }
    }
    signal(SIGALRM, on_alarm);
    alarm(10);
    try { ezc3d::c3d r(path); printf("loaded: %zu frames\n", r.data().nbFrames()); } catch (std::exception &e) { printf("refused: %s\n", e.what()); }
    remove(path);
    return 0;
}
