// obligation Data_frame.append-payload-not-shared-with-caller : after data.frame(f) (append), editing the
// caller's frame must not change the stored frame
#include "common.h"
int main()
{
    ezc3d::DataNS::Data d;
    ezc3d::DataNS::Frame f;
    ezc3d::DataNS::Points3dNS::Points pts;
    ezc3d::DataNS::Points3dNS::Point p("P"); p.x(1);
    pts.point(p);
    f.add(pts);
    d.frame(f);                                   // append
    f.points_nonConst().point_nonConst(0).x(42);  // caller edits its own frame afterwards
    float stored = d.frame(0).points().point(0).x();
    printf("stored x after caller-side edit: %g (expected 1)\n", stored);
    return stored == 1.0f ? 0 : 1;
}
