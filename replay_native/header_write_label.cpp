// obligations Header_write.event-label-padding-defined / ostream::write source at Header.cpp:138 :
// a label shorter than 4 characters: 4 bytes are read from the string's buffer, i.e. bytes after the terminator
// that no constructor ever wrote.  Run under valgrind --error-exitcode=1: memcheck reports the uninitialised
// bytes when they reach write(2)  ("Syscall param write(buf) points to uninitialised byte(s)").
#include "common.h"
#include <fstream>
int main()
{
    // make sure recycled heap blocks do not happen to be zero
    for (int i = 0; i < 64; ++i) { char *p = (char *)malloc(18 * sizeof(std::string)); memset(p, 0xAB, 18 * sizeof(std::string)); free(p); }
    ezc3d::Header *h = new ezc3d::Header();
    const char *path = "/var/tmp/vf_replay_hdr.bin";
    { std::fstream f(path, std::ios::out | std::ios::binary); h->write(f); }
    std::ifstream in(path, std::ios::binary);
    std::string s((std::istreambuf_iterator<char>(in)), std::istreambuf_iterator<char>());
    remove(path);
    int bad = 0;
    for (int i = 396; i < 468 && i < (int)s.size(); ++i) if (s[i] != 0) ++bad;   // 18 empty labels must be 72 zero bytes
    printf("%d non-zero bytes in the 72-byte label area of a header with 18 empty labels\n", bad);
    delete h;
    return bad ? 1 : 0;
}
