// obligation c3d_write.failure-is-reported : a save that cannot reach the disk must throw std::ios_base::failure
#include "common.h"
static int attempt(const char *path)
{
    ezc3d::c3d c;
    try { c.write(path); }
    catch (std::ios_base::failure &) { printf("%s: I/O failure reported\n", path); return 0; }
    printf("%s: write() returned normally although nothing can have been written\n", path);
    return 1;
}
int main()
{
    int bad = 0;
    bad += attempt("/nonexistent-directory-vf/out.c3d");   // cannot be opened
    bad += attempt("/dev/full");                            // every flush fails with ENOSPC
    return bad ? 1 : 0;
}
