// obligations Group_read.description-length-is-unsigned-byte / allocation-bounded (and the same in Parameter::read):
// a description of 128..255 characters is a legal C3D record (the length byte is unsigned) but was read as a negative
// int and cast to unsigned: a ~4 GiB allocation / read driven by one byte of the file.
// The replay saves a group whose description has 200 characters and loads the file back.
#include "common.h"
int main()
{
    const char *path = "/var/tmp/vf_replay_desc.c3d";
    {
        ezc3d::c3d c;
        ezc3d::ParametersNS::GroupNS::Parameter p("P", std::string(200, 'd'));
        p.set(1);
        c.parameter("LONGDESC", p);
        c.write(path);
    }
    int rc = 0;
    try {
        ezc3d::c3d r(path);
        const std::string &d = r.parameters().group("LONGDESC").parameter("P").description();
        printf("reloaded description length %zu (expected 200)\n", d.size());
        rc = d.size() == 200 ? 0 : 1;
    } catch (std::exception &e) { printf("reload failed: %s\n", e.what()); rc = 1; }
    remove(path);
    return rc;
}
