// C16: a parameter record that announces a large matrix (3 dimension bytes of 255 = 16 581 375 elements) in a file that ends
// right after the dimension bytes: the matrix readers keep "reading" past the end of the file, so time and memory grow
// with the announced size, not with the file size.
#include "common.h"
#include <fstream>
#include <chrono>
#include <unistd.h>
static long rss_kb() { long a = 0, b = 0; FILE *f = fopen("/proc/self/statm", "r"); if (f) { if (fscanf(f, "%ld %ld", &a, &b) != 2) b = 0; fclose(f); } return b * (sysconf(_SC_PAGESIZE) / 1024); }
int main()
{
    const char *path = "/tmp/vf_matrix_eof.c3d";
    {
        ezc3d::c3d c;
        ezc3d::ParametersNS::GroupNS::Parameter p("ZZ");
        p.set(std::vector<int>{7}, {1});
        c.parameter("DEMO", p);
        c.write(path);
    }
    std::string img;
    { std::ifstream f(path, std::ios::binary); img.assign((std::istreambuf_iterator<char>(f)), std::istreambuf_iterator<char>()); }
    size_t at = img.find("ZZ", 512);
    if (at == std::string::npos) { printf("record not found\n"); return 2; }
    // name(2) offset(2) type(1) ndims(1) dims...: announce 255 x 255 x 255 16-bit integers and end the file there
    img.resize(at + 9);
    img[at + 5] = 3; img[at + 6] = img[at + 7] = img[at + 8] = static_cast<char>(255);
    { std::ofstream f(path, std::ios::binary | std::ios::trunc); f.write(img.data(), static_cast<std::streamsize>(img.size())); }
    long before = rss_kb();
    auto t0 = std::chrono::steady_clock::now();
    const char *outcome = "loaded";
    long peak = 0;
    try { ezc3d::c3d r(path); peak = rss_kb(); } catch (std::exception &e) { outcome = "refused"; peak = rss_kb(); }
    double s = std::chrono::duration<double>(std::chrono::steady_clock::now() - t0).count();
    printf("file of %zu bytes: %s after %.2f s, resident memory grew by %ld KiB\n", img.size(), outcome, s, peak - before);
    remove(path);
    return (s > 0.5 || peak - before > 16 * 1024) ? 1 : 0;
}
