// obligation Points_point_alias.L104 (requires of the assignment at the call site): Points::point(p, idx),
// SubFrame::channel(c, idx) and Analogs::subframe(s, idx) grow their container and then assign from the argument;
// when the argument is an element of that container it dangles (heap-use-after-free under ASan).
#include "common.h"
using namespace ezc3d::DataNS;
int main()
{
    int bad = 0;
    Points3dNS::Points pts;
    for (int i = 0; i < 3; ++i) { Points3dNS::Point p("p" + std::to_string(i)); p.x(10.0f + i); pts.point(p); }
    pts.point(pts.point(1), 40);
    if (pts.point(40).x() != 11.0f || pts.point(40).name() != "p1") { printf("Points::point: copy of a stored point is wrong\n"); ++bad; }
    AnalogsNS::SubFrame sf;
    for (int i = 0; i < 3; ++i) { AnalogsNS::Channel c("c" + std::to_string(i)); c.data(20.0f + i); sf.channel(c); }
    sf.channel(sf.channel(2), 40);
    if (sf.channel(40).data() != 22.0f || sf.channel(40).name() != "c2") { printf("SubFrame::channel: copy of a stored channel is wrong\n"); ++bad; }
    AnalogsNS::Analogs an;
    an.subframe(sf); an.subframe(sf);
    an.subframe(an.subframe(static_cast<size_t>(0)), 30);
    if (an.subframe(static_cast<size_t>(30)).nbChannels() != 41) { printf("Analogs::subframe: copy of a stored sub-frame is wrong\n"); ++bad; }
    printf("%d wrong copies\n", bad);
    return bad ? 1 : 0;
}
