// obligation hex2uint.ub@ezc3d.cpp:101 : signed overflow in uchar * (int)pow(256,3)
// built with -fsanitize=undefined -fno-sanitize-recover : the sanitizer aborts (exit != 0) on the overflow
#include "common.h"
int main(int argc, char **argv)
{
    unsigned char b[4] = {0xff, 0xff, 0xff, 0xff};
    for (int i = 0; i < 4 && i + 1 < argc; ++i) b[i] = (unsigned char)strtoul(argv[i + 1], 0, 0);
    Open c;
    unsigned v = c.hex2uint(reinterpret_cast<const char *>(b), 4);
    unsigned want = b[0] | (b[1] << 8) | (b[2] << 16) | ((unsigned)b[3] << 24);
    printf("hex2uint(%02x %02x %02x %02x) = %u want %u\n", b[0], b[1], b[2], b[3], v, want);
    return v == want ? 0 : 1;
}
